use arbitrary_int::*;
use bitbybit::bitfield;

#[bitfield(u24, default = 0)]
struct R {
    #[bit(0, rw, stride = 6148914691236517208)]
    f: [bool; 4],
}

fn main() {
    let x = R::DEFAULT.with_f(1, true);
    let y = R::new_with_raw_value(x.raw_value());
    println!("x.raw_value() = {:#x}, x.f(1) = {}, restarted f(1) = {}", x.raw_value().value(), x.f(1), y.f(1));
    assert_eq!(x.f(1), y.f(1), "restart through raw_value() is observable");
}
