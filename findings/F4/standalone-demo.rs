use arbitrary_int::*;
use bitbybit::bitfield;

#[bitfield(u24, default = 0)]
struct A {
    #[bit(18446744073709551615, rw)]
    f: [bool; 2],
}

#[bitfield(u24, default = 0)]
#[derive(PartialEq, Debug)]
struct B {
    #[bits(18446744073709551615..=6, rw)]
    g: [u8; 2],
}

fn main() {
    let x = A::DEFAULT.with_f(0, true);
    let y = A::new_with_raw_value(x.raw_value());
    println!("A: x.raw_value() = {:#x}, x.f(0) = {}, restarted f(0) = {}", x.raw_value().value(), x.f(0), y.f(0));
    let x = B::DEFAULT.with_g(0, 0xFF);
    let y = B::new_with_raw_value(x.raw_value());
    println!("B: x.raw_value() = {:#x}, x.g(0) = {}, restarted g(0) = {}, x == restarted: {}", x.raw_value().value(), x.g(0), y.g(0), x == y);
}
