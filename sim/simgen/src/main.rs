//! Generates shard workspaces (declarations + glue + driver) from a seed.
//!
//!   simgen shards  --prop P --seed S --layouts N --shards K --probe-widths quick|all|none --out DIR --repo PATH --simcore PATH
//!   simgen prune   --shard-dir DIR --drop 3,7 --drop-builders 9
//!   simgen one     --replay FILE --out DIR --repo PATH --simcore PATH
//!   simgen reduce  --replay FILE --out FILE2
//!   simgen describe --prop P --seed S --layout K          (print one generated layout's source)

use simcore::driver::{case_text, Replay};
use simcore::emit::{builder_module, layout_module, main_rs, shard_cargo_toml, workspace_cargo_toml, ShardMember};
use simcore::layout::{gen_canonical, gen_bad_enum_probes, gen_default_probes, gen_layout, gen_mismatch_probes, gen_narrow_probes, gen_probes, gen_syntax_probes, gen_syntax_probes_at, is_native, storage_bits, GenOpts, Layout};
use simcore::prng::{mix, Rng, TAG_LAYOUT, TAG_PROBE};
use simcore::shrink::{reduce_layout, referenced_fields};
use std::fs;
use std::path::Path;

fn arg(args: &[String], name: &str) -> Option<String> {
    args.iter().position(|a| a == name).and_then(|p| args.get(p + 1).cloned())
}

fn need(args: &[String], name: &str) -> String {
    arg(args, name).unwrap_or_else(|| {
        eprintln!("simgen: missing {name}");
        std::process::exit(2)
    })
}

#[derive(serde::Serialize, serde::Deserialize, Clone)]
struct Member {
    id: u32,
    with_builder: bool,
}

fn prop_tag(prop: &str) -> u64 {
    if prop == "C11" {
        11
    } else {
        12
    }
}

pub fn layout_for(prop: &str, seed: u64, k: u32) -> Layout {
    let mut rng = Rng::new(mix(&[seed, TAG_LAYOUT, prop_tag(prop), k as u64]));
    gen_layout(&mut rng, k, GenOpts { arb_only: prop == "C11" })
}

const QUICK_PROBE_WIDTHS: [u32; 12] = [7, 9, 15, 17, 24, 31, 33, 48, 63, 65, 100, 127];
pub const PROBE_ID_BASE: u32 = 1_000_000;

pub const MISMATCH_ID_BASE: u32 = 2_000_000;
pub const DEFAULT_ID_BASE: u32 = 3_000_000;
const TAG_MISMATCH: u64 = 0x4d49_534d;
const TAG_DEFAULT: u64 = 0x4445_4641;
pub const BADENUM_ID_BASE: u32 = 4_000_000;
const TAG_BADENUM: u64 = 0x4241_4445;
pub const NARROW_ID_BASE: u32 = 5_000_000;
const TAG_NARROW: u64 = 0x4e41_5252;
pub const SYNTAX_ID_BASE: u32 = 6_000_000;
pub const CANONICAL_ID_BASE: u32 = 7_000_000;
const TAG_SYNTAX: u64 = 0x5359_4e54;

fn probes_for(prop: &str, seed: u64, which: &str) -> Vec<Layout> {
    let mut out = Vec::new();
    if which == "none" {
        return out;
    }
    // class H: hand-picked rule-valid corner layouts, the same in every run
    out.extend(gen_canonical(prop == "C11", CANONICAL_ID_BASE));
    let arb_all: Vec<u32> = (1..=127).filter(|&n| !is_native(n) && storage_bits(n) > n).collect();
    if prop == "C11" {
        let widths: Vec<u32> = if which == "quick" { QUICK_PROBE_WIDTHS.to_vec() } else { arb_all.clone() };
        for &n in &widths {
            // class B: declarations addressing bits >= N
            let mut rng = Rng::new(mix(&[seed, TAG_PROBE, n as u64]));
            out.extend(gen_probes(&mut rng, n, PROBE_ID_BASE + n * 100));
            // class C: write-only custom type wider than its field, placed at the top of the base
            let mut rng = Rng::new(mix(&[seed, TAG_MISMATCH, 11, n as u64]));
            out.extend(gen_mismatch_probes(&mut rng, n, MISMATCH_ID_BASE + n * 100, true));
            // class D: default with bits >= N
            let mut rng = Rng::new(mix(&[seed, TAG_DEFAULT, n as u64]));
            out.extend(gen_default_probes(&mut rng, n, DEFAULT_ID_BASE + n * 100));
            // class G: rule-following declarations in a syntax the macro rejects today, the
            // exotically spelled field at the top of the base (the twin-run oracle needs no model)
            out.extend(gen_syntax_probes_at(n, SYNTAX_ID_BASE + n * 100, true));
        }
    } else {
        let widths: Vec<u32> = if which == "quick" {
            vec![8, 16, 32, 64, 128, 7, 14, 24, 50, 100, 127]
        } else {
            (3..=128).filter(|&n| is_native(n) || n % 2 == 1 || n % 8 == 2).collect()
        };
        for &n in &widths {
            // class B: declarations addressing bits >= N (for a native base: bits the storage does not have)
            if n < 128 {
                let mut rng = Rng::new(mix(&[seed, TAG_PROBE, 12, n as u64]));
                out.extend(gen_probes(&mut rng, n, PROBE_ID_BASE + n * 100));
            }
            let mut rng = Rng::new(mix(&[seed, TAG_MISMATCH, 12, n as u64]));
            out.extend(gen_mismatch_probes(&mut rng, n, MISMATCH_ID_BASE + n * 100, false));
            // class E: fields whose bitenum breaks the bitenum rules
            let mut rng = Rng::new(mix(&[seed, TAG_BADENUM, n as u64]));
            out.extend(gen_bad_enum_probes(&mut rng, n, BADENUM_ID_BASE + n * 100));
            // class F: fields whose type is narrower than the bits they select
            let mut rng = Rng::new(mix(&[seed, TAG_NARROW, n as u64]));
            out.extend(gen_narrow_probes(&mut rng, n, NARROW_ID_BASE + n * 100));
            // class G: rule-following declarations in a syntax the macro rejects today
            let mut rng = Rng::new(mix(&[seed, TAG_SYNTAX, n as u64]));
            out.extend(gen_syntax_probes(&mut rng, n, SYNTAX_ID_BASE + n * 100));
        }
    }
    out
}

fn write_shard(dir: &Path, name: &str, layouts: &[Layout], members: &[Member], repo: &str, simcore: &str, fresh: bool) {
    fs::create_dir_all(dir.join("src")).expect("mkdir");
    if fresh {
        fs::write(dir.join("Cargo.toml"), shard_cargo_toml(name, simcore, repo)).expect("write");
        for l in layouts {
            fs::write(dir.join("src").join(format!("l{}.rs", l.id)), layout_module(l)).expect("write");
            if l.predicts_builder() {
                fs::write(dir.join("src").join(format!("l{}_b.rs", l.id)), builder_module(l)).expect("write");
            }
        }
    }
    let kept: Vec<&Layout> = layouts.iter().filter(|l| members.iter().any(|m| m.id == l.id)).collect();
    fs::write(dir.join("layouts.json"), serde_json::to_string(&kept).unwrap()).expect("write");
    fs::write(dir.join("members.json"), serde_json::to_string(&members).unwrap()).expect("write");
    let ms: Vec<ShardMember> = members.iter().map(|m| ShardMember { id: m.id, with_builder: m.with_builder }).collect();
    fs::write(dir.join("src").join("main.rs"), main_rs(&ms)).expect("write");
}

fn cmd_shards(args: &[String]) {
    let prop = need(args, "--prop");
    let seed: u64 = need(args, "--seed").parse().expect("seed");
    let n: u32 = need(args, "--layouts").parse().expect("layouts");
    let k: usize = need(args, "--shards").parse().expect("shards");
    let out = need(args, "--out");
    let repo = need(args, "--repo");
    let simcore = need(args, "--simcore");
    let probe_widths = arg(args, "--probe-widths").unwrap_or_else(|| "none".into());
    let prefix = arg(args, "--prefix").unwrap_or_else(|| "x".into());
    let out = Path::new(&out);
    if out.exists() {
        fs::remove_dir_all(out).expect("clean out dir");
    }
    fs::create_dir_all(out).expect("mkdir out");

    let mut shards: Vec<Vec<Layout>> = vec![Vec::new(); k];
    for i in 0..n {
        shards[i as usize % k].push(layout_for(&prop, seed, i));
    }
    let mut names: Vec<String> = Vec::new();
    for (s, ls) in shards.iter().enumerate() {
        if ls.is_empty() {
            continue;
        }
        let name = format!("{prefix}-shard{s:02}");
        let members: Vec<Member> = ls.iter().map(|l| Member { id: l.id, with_builder: l.predicts_builder() }).collect();
        write_shard(&out.join(&name), &name, ls, &members, &repo, &simcore, true);
        names.push(name);
    }
    let mut classes: std::collections::BTreeMap<String, String> = std::collections::BTreeMap::new();
    for ls in &shards {
        for l in ls {
            classes.insert(l.id.to_string(), l.class.clone());
        }
    }
    {
        let probes = probes_for(&prop, seed, &probe_widths);
        for l in &probes {
            classes.insert(l.id.to_string(), l.class.clone());
        }
        // probes live in their own shards: most of them are expected to be rejected by a correct
        // macro, and only these shards then need a second build
        let per = 120usize;
        for (c, chunk) in probes.chunks(per).enumerate() {
            let name = format!("{prefix}-probe{c:02}");
            let members: Vec<Member> = chunk.iter().map(|l| Member { id: l.id, with_builder: l.predicts_builder() }).collect();
            write_shard(&out.join(&name), &name, chunk, &members, &repo, &simcore, true);
            names.push(name);
        }
    }
    fs::write(out.join("Cargo.toml"), workspace_cargo_toml(&names)).expect("write");
    fs::write(out.join("classes.json"), serde_json::to_string(&classes).unwrap()).expect("write");
    fs::create_dir_all(out.join(".cargo")).expect("mkdir");
    fs::write(out.join(".cargo/config.toml"), "[net]\noffline = true\n").expect("write");
    println!("{}", serde_json::json!({ "shards": names }));
}

fn ids(s: Option<String>) -> Vec<u32> {
    s.map(|s| s.split(',').filter(|x| !x.is_empty()).map(|x| x.parse().expect("id")).collect()).unwrap_or_default()
}

fn cmd_prune(args: &[String]) {
    let dir = need(args, "--shard-dir");
    let dir = Path::new(&dir);
    let drop = ids(arg(args, "--drop"));
    let drop_b = ids(arg(args, "--drop-builders"));
    let members: Vec<Member> = serde_json::from_str(&fs::read_to_string(dir.join("members.json")).expect("members.json")).expect("parse");
    let layouts: Vec<Layout> = serde_json::from_str(&fs::read_to_string(dir.join("layouts.json")).expect("layouts.json")).expect("parse");
    let members: Vec<Member> = members
        .into_iter()
        .filter(|m| !drop.contains(&m.id))
        .map(|m| Member { id: m.id, with_builder: m.with_builder && !drop_b.contains(&m.id) })
        .collect();
    let name = dir.file_name().unwrap().to_string_lossy().to_string();
    write_shard(dir, &name, &layouts, &members, "", "", false);
    println!("{}", serde_json::json!({ "members": members.len() }));
}

fn cmd_one(args: &[String]) {
    let replay = need(args, "--replay");
    let out = need(args, "--out");
    let repo = need(args, "--repo");
    let simcore = need(args, "--simcore");
    let r: Replay = serde_json::from_str(&fs::read_to_string(&replay).expect("read replay")).expect("parse replay");
    let prefix = arg(args, "--prefix").unwrap_or_else(|| "x".into());
    let one = format!("{prefix}-one");
    let out = Path::new(&out);
    if out.exists() {
        fs::remove_dir_all(out).expect("clean");
    }
    fs::create_dir_all(out).expect("mkdir");
    let l = r.layout.clone();
    let members = vec![Member { id: l.id, with_builder: l.predicts_builder() }];
    write_shard(&out.join(&one), &one, &[l], &members, &repo, &simcore, true);
    fs::write(out.join("Cargo.toml"), workspace_cargo_toml(&[one.clone()])).expect("write");
    fs::create_dir_all(out.join(".cargo")).expect("mkdir");
    fs::write(out.join(".cargo/config.toml"), "[net]\noffline = true\n").expect("write");
}

fn cmd_reduce(args: &[String]) {
    let replay = need(args, "--replay");
    let out = need(args, "--out");
    let r: Replay = serde_json::from_str(&fs::read_to_string(&replay).expect("read replay")).expect("parse replay");
    let keep = referenced_fields(&r.case, &r.violation);
    match reduce_layout(&r.layout, &r.case, &r.violation, &keep) {
        None => std::process::exit(3),
        Some((nl, nc, sig)) => {
            let mut nv = r.violation.clone();
            nv.field = r.violation.field.and_then(|f| keep.iter().position(|&k| k == f));
            let nr = Replay {
                signature: sig,
                layout_reduced: true,
                declaration: nl.summary(),
                history_text: case_text(&nl, &nc),
                layout: nl,
                case: nc,
                violation: nv,
                ..r
            };
            fs::write(&out, serde_json::to_string_pretty(&nr).unwrap()).expect("write");
        }
    }
}

fn cmd_describe(args: &[String]) {
    let prop = need(args, "--prop");
    let seed: u64 = need(args, "--seed").parse().expect("seed");
    let k: u32 = need(args, "--layout").parse().expect("layout");
    let l = if k >= PROBE_ID_BASE {
        probes_for(&prop, seed, "all").into_iter().find(|p| p.id == k).expect("no such probe")
    } else {
        layout_for(&prop, seed, k)
    };
    println!("{}", layout_module(&l));
    if l.predicts_builder() {
        println!("{}", builder_module(&l));
    }
}

fn main() {
    let args: Vec<String> = std::env::args().collect();
    match args.get(1).map(|s| s.as_str()) {
        Some("shards") => cmd_shards(&args),
        Some("prune") => cmd_prune(&args),
        Some("one") => cmd_one(&args),
        Some("reduce") => cmd_reduce(&args),
        Some("describe") => cmd_describe(&args),
        _ => {
            eprintln!("usage: simgen shards|prune|one|reduce|describe ...");
            std::process::exit(2);
        }
    }
}
