//! Turns a layout description into Rust source: the `#[bitfield]` / `#[bitenum]` declarations the
//! macro will see, plus the glue that implements `Reg` for the generated type. The glue contains
//! only trivial conversions between u128 bit patterns and the declared field types.

use crate::layout::{is_native, storage_bits, Field, Kind, Layout};
use crate::prng::mask;
use std::fmt::Write;

/// decimal rendering with `_` every three digits (1_234_567)
fn underscored(v: u128) -> String {
    let d = v.to_string();
    let mut out = String::new();
    for (i, c) in d.chars().enumerate() {
        if i > 0 && (d.len() - i) % 3 == 0 {
            out.push('_');
        }
        out.push(c);
    }
    out
}

fn base_ty(bits: u32) -> String {
    format!("u{bits}")
}

/// typed expression of the integer type `uW` (native or arbitrary) from a u128 expression
fn uint_in(w: u32, v: &str) -> String {
    if is_native(w) {
        format!("({v}) as u{w}")
    } else {
        format!("arbitrary_int::u{w}::new((({v}) & {:#x}u128) as u{})", mask(w), storage_bits(w))
    }
}

/// u128 expression from a typed `uW`
fn uint_out(w: u32, x: &str) -> String {
    if is_native(w) {
        format!("({x}) as u128")
    } else {
        format!("({x}).value() as u128")
    }
}

/// a bit position or stride as the declaration spells it (optionally with a leading zero, which
/// the parser reads as decimal all the same)
fn num(f: &Field, x: u32) -> String {
    match f.syntax {
        2 => format!("{x:#x}"),
        3 => {
            // binary with a separator every four digits: 0b1_0000
            let b = format!("{x:b}");
            let mut out = String::from("0b");
            for (i, c) in b.chars().enumerate() {
                if i > 0 && (b.len() - i) % 4 == 0 {
                    out.push('_');
                }
                out.push(c);
            }
            out
        }
        // class G: a digit separator / a type suffix inside a position, stride or array length
        9 => {
            let d = format!("{x}");
            if d.len() >= 2 {
                format!("{}_{}", &d[..1], &d[1..])
            } else {
                format!("0_{d}")
            }
        }
        10 => format!("{x}usize"),
        // class B, `bit-index-wraps-usize`: the position (nominally 0) is spelled usize::MAX
        150 if x == 0 => "18446744073709551615".to_string(),
        _ if f.zero_pad => format!("0{x}"),
        _ => format!("{x}"),
    }
}

fn range_text(f: &Field) -> String {
    // class B, `range-start-wraps-usize`: lower limit usize::MAX, upper limit 6
    if f.syntax == 151 {
        return "18446744073709551615..=6".to_string();
    }
    // single-bit entries of a list may be written `n` or `n..=n`
    let one = |&(lo, hi): &(u32, u32), in_list: bool| -> String {
        if f.syntax == 1 {
            // half-open: the upper bound is exclusive
            format!("{}..{}", num(f, lo), num(f, hi + 1))
        } else if f.syntax == 11 {
            // class G: the range written MSB-first, as data sheets do (`bits(15..=8)`)
            format!("{}..={}", num(f, hi), num(f, lo))
        } else if lo == hi && in_list && !f.qualified {
            num(f, lo)
        } else {
            format!("{}..={}", num(f, lo), num(f, hi))
        }
    };
    if f.ranges.len() == 1 {
        one(&f.ranges[0], false)
    } else {
        let parts: Vec<String> = f.ranges.iter().map(|r| one(r, true)).collect();
        format!("[{}]", parts.join(", "))
    }
}

/// name used after `with_` / `set_`: a raw identifier loses its `r#`
pub fn setter_stem(f: &Field) -> &str {
    f.name.strip_prefix("r#").unwrap_or(&f.name)
}

fn attr_text(f: &Field) -> String {
    // `stride = s` or the legacy `stride: s`
    let stride_sep = if f.attr_order % 24 >= 12 { ":" } else { " =" };
    let stride = match f.array {
        // class B, `array-stride-wraps-the-bounds-computation`: a stride near 2^64 / 3 (syntax = 100 + t)
        Some(a) if a.explicit && f.syntax > 100 => Some(format!("stride{} {}", stride_sep, 0x5555_5555_5555_5555u64 + (f.syntax - 100) as u64)),
        Some(a) if a.explicit => Some(format!("stride{} {}", stride_sep, num(f, a.stride))),
        _ => None,
    };
    let single_bit = f.ranges.len() == 1 && f.ranges[0].0 == f.ranges[0].1;
    let all_single = f.ranges.iter().all(|r| r.0 == r.1);
    // the syntactic variants the parser accepts for the same meaning:
    //   one bit:        bit(n)   or bits(n..=n)      (bool and 1-bit types alike)
    //   list of bits:   bits([a, b]) or bit([a, b])
    let (name, range) = if single_bit && f.syntax != 1 && ((f.kind == Kind::Bool) != f.qualified) {
        ("bit", num(f, f.ranges[0].0))
    } else if f.ranges.len() > 1 && all_single && f.qualified {
        let parts: Vec<String> = f.ranges.iter().map(|r| num(f, r.0)).collect();
        ("bit", format!("[{}]", parts.join(", ")))
    } else {
        ("bits", range_text(f))
    };
    // class G: the other keyword (`bit(a..=b)`, `bits(n)`), rejected by the pinned macro
    let name = if f.syntax == 7 { if name == "bit" { "bits" } else { "bit" } } else { name };
    let access = f.access.text().to_string();
    // the parser takes the arguments in any order, with or without a trailing comma, and spread
    // over several bit/bits attributes as long as only one of them carries the range
    let order: [usize; 3] = match f.attr_order % 6 {
        1 => [0, 2, 1],
        2 => [1, 0, 2],
        3 => [2, 0, 1],
        4 => [1, 2, 0],
        5 => [2, 1, 0],
        _ => [0, 1, 2],
    };
    let parts = [Some(range), Some(access), stride];
    let args: Vec<String> = order.iter().filter_map(|&k| parts[k].clone()).collect();
    let trailing = if f.attr_order % 12 >= 6 { "," } else { "" };
    if f.attr_order >= 24 && args.len() >= 2 {
        format!("#[{}({}{})]\n    #[{}({}{})]", name, args[0], trailing, name, args[1..].join(", "), trailing)
    } else {
        format!("#[{}({}{})]", name, args.join(", "), trailing)
    }
}

/// index of the field whose enum / nested type this field uses (its own unless shared)
fn ty_index(f: &Field, j: usize) -> usize {
    f.share_with.unwrap_or(j)
}

fn elem_type(f: &Field, j: usize) -> String {
    let j = ty_index(f, j);
    let w = f.value_width();
    match &f.kind {
        // class G: primitives spelled with their path
        Kind::Bool if f.syntax == 8 => "core::primitive::bool".into(),
        Kind::Native if f.syntax == 8 => format!("std::primitive::u{w}"),
        Kind::Signed if f.syntax == 8 => format!("core::primitive::i{w}"),
        Kind::Bool => "bool".into(),
        Kind::Arb if f.syntax == 6 => format!("arbitrary_int::UInt<u{}, {w}>", storage_bits(w)),
        Kind::Arb => {
            if f.qualified {
                format!("arbitrary_int::u{w}")
            } else {
                format!("u{w}")
            }
        }
        Kind::Native => format!("u{w}"),
        Kind::Signed => format!("i{w}"),
        Kind::EnumExh => format!("{}E{j}", if f.qualified { "self::" } else { "" }),
        Kind::EnumOpt { .. } if f.claims_exhaustive => format!("E{j}"),
        // the macro looks at the last path segment, so the fully qualified spelling is accepted too
        Kind::EnumOpt { .. } => format!("{}Option<{}E{j}>", if f.qualified && f.attr_order % 2 == 1 { "core::option::" } else { "" }, if f.qualified { "self::" } else { "" }),
        Kind::Nested => format!("{}N{j}", if f.qualified { "self::" } else { "" }),
        Kind::User => format!("{}U{j}", if f.qualified { "self::" } else { "" }),
    }
}

/// type taken by with_/set_ and by the builder
fn setter_type(f: &Field, j: usize) -> String {
    let t = ty_index(f, j);
    match &f.kind {
        Kind::EnumOpt { .. } => format!("E{t}"),
        _ => elem_type(f, j),
    }
}

fn getter_type(f: &Field, j: usize) -> String {
    let t = ty_index(f, j);
    match &f.kind {
        Kind::EnumOpt { .. } if f.claims_exhaustive => format!("E{t}"),
        Kind::EnumOpt { .. } => format!("Result<E{t}, u{}>", storage_bits(f.width())),
        _ => elem_type(f, j),
    }
}

fn enum_decl(out: &mut String, j: usize, w: u32, discs: &[u128], exhaustive: bool, style: u8, implicit: bool) {
    let s = storage_bits(w);
    // accepted spellings: `exhaustive = b`, legacy `exhaustive: b`, and nothing at all for a
    // non-exhaustive enum; discriminants in decimal, hexadecimal or binary
    let conditional = !exhaustive && style % 4 == 3;
    let ex = match (exhaustive, style % 4) {
        (true, 1) => ", exhaustive: true".to_string(),
        (true, _) => ", exhaustive = true".to_string(),
        (false, 0) => ", exhaustive = false".to_string(),
        (false, 1) => ", exhaustive: false".to_string(),
        (false, 2) => String::new(),
        // `conditional`: variants may carry #[cfg]; conversions behave like a non-exhaustive enum
        (false, _) => ", exhaustive = conditional".to_string(),
    };
    let _ = writeln!(out, "#[bitenum(u{w}{ex})]\n#[derive(Debug, PartialEq, Eq)]\n#[repr(u{s})]\npub enum E{j} {{");
    for (k, d) in discs.iter().enumerate() {
        if conditional && k == 0 {
            // two cfg-alternatives for one discriminant, the inactive one declared first
            let _ = writeln!(out, "    #[cfg(any())]\n    Alt{k} = {d},\n    #[cfg(all())]");
        }
        if implicit && k > 0 && *d == discs[k - 1] + 1 {
            // left implicit: Rust's rule is previous + 1
            let _ = writeln!(out, "    V{k},");
            continue;
        }
        let _ = match (style / 4) % 3 {
            1 => writeln!(out, "    V{k} = {d:#x},"),
            2 if *d < (1 << 16) => writeln!(out, "    V{k} = {d:#b},"),
            _ => writeln!(out, "    V{k} = {d},"),
        };
    }
    if exhaustive && style == 200 {
        if let Some(hole) = (0..(1u128 << w)).find(|x| !discs.contains(x)) {
            let _ = writeln!(out, "    #[cfg(any())]\n    Hole = {hole},");
        }
    }
    if conditional && discs.len() >= 2 {
        // ... and one pair with the inactive alternative declared last
        let _ = writeln!(out, "    #[cfg(any())]\n    Alt1 = {},", discs[1]);
    }
    if conditional {
        // a variant that is configured out: it must not exist in the conversions
        if let Some(free) = (0..=crate::prng::mask(w).min(1 << 12)).find(|x| !discs.contains(x)) {
            let _ = writeln!(out, "    #[cfg(any())]\n    Never = {free},");
        }
    }
    let _ = writeln!(out, "}}");
    // in: u128 -> variant; out: variant -> u128. Both spelled out from the description so that
    // neither relies on the bitenum's own conversions.
    let _ = writeln!(out, "pub fn e{j}_in(v: u128) -> E{j} {{\n    match v {{");
    for (k, d) in discs.iter().enumerate() {
        let _ = writeln!(out, "        {d} => E{j}::V{k},");
    }
    let _ = writeln!(out, "        _ => panic!(\"HARNESS: value {{v:#x}} is not a variant of E{j}\"),\n    }}\n}}");
    let _ = writeln!(out, "pub fn e{j}_out(x: E{j}) -> u128 {{\n    match x {{");
    for (k, d) in discs.iter().enumerate() {
        let _ = writeln!(out, "        E{j}::V{k} => {d},");
    }
    let _ = writeln!(out, "    }}\n}}");
}

pub fn layout_module(l: &Layout) -> String {
    let mut o = String::new();
    let _ = writeln!(o, "// generated for layout {} ({}): {}", l.id, l.class, l.summary());
    let _ = writeln!(
        o,
        "#![allow(dead_code, unused_imports, unused_variables, unused_parens, deprecated, non_camel_case_types, unreachable_patterns, clippy::all)]"
    );
    let _ = writeln!(o, "use arbitrary_int::*;\nuse bitbybit::{{bitenum, bitfield}};\nuse simcore::reg::*;\n");
    let n = l.bits;

    // auxiliary types
    for (j, f) in l.fields.iter().enumerate() {
        let w = f.value_width();
        if f.share_with.is_some() {
            continue; // uses the type declared for an earlier field
        }
        match &f.kind {
            Kind::EnumExh => {
                let discs = f.exhaustive_variants();
                enum_decl(&mut o, j, w, &discs, true, f.attr_order.wrapping_add(f.variant_rot as u8), f.syntax == 5);
            }
            Kind::EnumOpt { discs } => {
                let d: Vec<u128> = discs.iter().map(|h| h.0).collect();
                if f.claims_exhaustive {
                    // style 200 = additionally write the first missing value as a variant that is
                    // configured away
                    enum_decl(&mut o, j, w, &d, true, if f.variant_rot == 1 { 200 } else { 0 }, f.syntax == 5);
                } else {
                    enum_decl(&mut o, j, w, &d, false, if f.syntax == 5 { 0 } else { f.attr_order.wrapping_add(f.variant_rot as u8).wrapping_add(d.len() as u8) }, f.syntax == 5);
                }
            }
            Kind::Nested => {
                // a small bitfield of its own: a flag at bit 0 and, where there is room, a view
                // over all of its bits
                let all = if w >= 2 { format!("    #[bits(0..={}, rw)]\n    all: u{w},\n", w - 1) } else { String::new() };
                let _ = writeln!(
                    o,
                    "#[bitfield(u{w})]\n#[derive({})]\npub struct N{j} {{\n    #[bit(0, rw)]\n    b0: bool,\n{all}}}",
                    if std::env::var("SIMGEN_NO_DERIVE_EQ").map_or(false, |v| v == "1") { "Debug" } else { "Debug, PartialEq, Eq" }
                );
            }
            Kind::User => {
                // what new_with_raw_value() takes is as wide as the field; what raw_value()
                // returns is as wide as the declared type width (the same unless this is a probe)
                let fw = f.width();
                let st = storage_bits(w.max(fw));
                let take = if is_native(fw) { format!("v as u{st}") } else { format!("v.value() as u{st}") };
                let give = if is_native(w) { format!("self.0 as u{w}") } else { format!("arbitrary_int::u{w}::new(self.0 as u{})", storage_bits(w)) };
                let _ = writeln!(
                    o,
                    "#[derive(Copy, Clone, Debug, PartialEq, Eq)]\npub struct U{j}(u{st});\nimpl U{j} {{\n    pub const fn new_with_raw_value(v: {}) -> Self {{ Self({take}) }}\n    pub const fn raw_value(self) -> {} {{ {give} }}\n    /// harness-only constructor: every bit pattern raw_value() can return\n    pub fn from_bits(v: u128) -> Self {{ Self((v & {:#x}u128) as u{st}) }}\n}}",
                    if is_native(fw) { format!("u{fw}") } else { format!("arbitrary_int::u{fw}") },
                    if is_native(w) { format!("u{w}") } else { format!("arbitrary_int::u{w}") },
                    mask(w)
                );
            }
            _ => {}
        }
    }

    // the declaration under test
    let default_attr = match &l.default {
        None => String::new(),
        Some(d) => match d.form {
            0 => format!(", default = {:#x}", d.value.0),
            1 => format!(", default: {:#x}", d.value.0),
            2 => {
                let _ = writeln!(o, "const DEFK: u{} = {:#x};", l.storage(), d.value.0);
                ", default = DEFK".to_string()
            }
            // literal with the storage type as suffix / decimal with digit separators /
            // legacy syntax with a named constant
            3 => format!(", default = {:#x}u{}", d.value.0, l.storage()),
            4 => format!(", default = {}", underscored(d.value.0)),
            _ => {
                let _ = writeln!(o, "const DEFK: u{} = {:#x};", l.storage(), d.value.0);
                ", default: DEFK".to_string()
            }
        },
    };
    for (j, f) in l.fields.iter().enumerate() {
        if let (13, Some(a)) = (f.syntax, f.array) {
            let _ = writeln!(o, "const LEN{j}: usize = {};", a.count);
        }
    }
    let debug_attr = if l.debug { ", debug" } else { "" };
    let mut macro_types: Vec<String> = Vec::new();
    let struct_start = o.len();
    // SIMGEN_NO_DERIVE_EQ=1 (set by the orchestrator only after a build in which every layout failed
    // with "conflicting implementations of trait PartialEq"): the macro under test provides
    // equality itself, so the derive is left out and the glue uses the macro's `==`
    let derive = if std::env::var("SIMGEN_NO_DERIVE_EQ").map_or(false, |v| v == "1") { "" } else { "#[derive(PartialEq, Eq)]\n" };
    let _ = writeln!(o, "#[bitfield({}{}{})]\n{}pub struct T {{", base_ty(n), default_attr, debug_attr, derive);
    for (j, f) in l.fields.iter().enumerate() {
        let mut et = elem_type(f, j);
        if f.syntax == 4 {
            et = format!("({et})");
        }
        if l.macro_wrapped {
            macro_types.push(et.clone());
            et = format!("$t{}", macro_types.len() - 1);
        }
        let ty = match f.array {
            // class G: the length as a named constant (declared in front of the struct)
            Some(_) if f.syntax == 13 => format!("[{et}; LEN{j}]"),
            Some(a) => format!("[{et}; {}]", if matches!(f.syntax, 2 | 3 | 9 | 10) { num(f, a.count) } else { a.count.to_string() }),
            None => et,
        };
        match f.doc {
            1 => {
                let _ = writeln!(o, "    /// field {} of layout {}\n    {}\n    {}: {},", j, l.id, attr_text(f), f.name, ty);
            }
            2 => {
                let _ = writeln!(o, "    {}\n    /// field {} of layout {}\n    {}: {},", attr_text(f), j, l.id, f.name, ty);
            }
            _ => {
                let _ = writeln!(o, "    {}\n    {}: {},", attr_text(f), f.name, ty);
            }
        }
    }
    let _ = writeln!(o, "}}\n");
    if l.macro_wrapped {
        // the declaration is the body of a macro; its field types arrive as `$t:ty` fragments
        let body = o.split_off(struct_start);
        let params: Vec<String> = (0..macro_types.len()).map(|k| format!("$t{k}:ty")).collect();
        let _ = writeln!(o, "macro_rules! declare {{\n    ({}) => {{\n{}    }};\n}}\ndeclare!({});\n", params.join(", "), body, macro_types.join(", "));
    }

    // conversions
    for (j, f) in l.fields.iter().enumerate() {
        let w = f.value_width();
        let t = ty_index(f, j);
        let st = setter_type(f, j);
        let body_in = match &f.kind {
            Kind::Bool => "(v & 1) != 0".to_string(),
            Kind::Arb | Kind::Native => uint_in(w, "v"),
            Kind::Signed => format!("v as u{w} as i{w}"),
            Kind::EnumExh => format!("e{t}_in(v & {:#x}u128)", mask(w)),
            Kind::EnumOpt { .. } => format!("e{t}_in(v)"),
            Kind::Nested => format!("N{t}::new_with_raw_value({})", uint_in(w, "v")),
            Kind::User => format!("U{t}::from_bits(v)"),
        };
        let _ = writeln!(o, "#[inline(never)]\npub fn in_{j}(v: u128) -> {st} {{ {body_in} }}");
        let gt = getter_type(f, j);
        let body_out = match &f.kind {
            Kind::Bool => "(x as u128, TAG_PLAIN)".to_string(),
            Kind::Arb | Kind::Native => format!("({}, TAG_PLAIN)", uint_out(w, "x")),
            Kind::Signed => format!("(x as u{w} as u128, TAG_PLAIN)"),
            Kind::EnumExh => format!("(e{t}_out(x), TAG_PLAIN)"),
            Kind::EnumOpt { .. } if f.claims_exhaustive => format!("(e{t}_out(x), TAG_PLAIN)"),
            Kind::EnumOpt { .. } => format!("match x {{ Ok(e) => (e{t}_out(e), TAG_OK), Err(r) => (r as u128, TAG_ERR) }}"),
            Kind::Nested | Kind::User => format!("({}, TAG_PLAIN)", uint_out(w, "x.raw_value()")),
        };
        let _ = writeln!(o, "#[inline(never)]\npub fn out_{j}(x: {gt}) -> (u128, u8) {{ {body_out} }}");
    }

    // the Reg implementation
    let _ = writeln!(o, "\npub struct G(pub T);\nimpl Reg for G {{");
    let _ = writeln!(o, "    fn raw(&self) -> u128 {{ {} }}", uint_out(n, "self.0.raw_value()"));
    let _ = writeln!(o, "    fn read(&self, f: usize, i: usize) -> (u128, u8) {{\n        match f {{");
    for (j, f) in l.fields.iter().enumerate() {
        if f.access.readable() {
            let call = if f.array.is_some() { format!("self.0.{}(i)", f.name) } else { format!("self.0.{}()", f.name) };
            let _ = writeln!(o, "            {j} => out_{j}({call}),");
        }
    }
    let _ = writeln!(o, "            _ => panic!(\"HARNESS: field {{f}} is not readable\"),\n        }}\n    }}");
    let _ = writeln!(o, "    fn with(&self, f: usize, i: usize, v: u128) -> Box<dyn Reg> {{\n        match f {{");
    for (j, f) in l.fields.iter().enumerate() {
        if f.access.writable() {
            let call = if f.array.is_some() {
                format!("self.0.with_{}(i, in_{j}(v))", setter_stem(f))
            } else {
                format!("self.0.with_{}(in_{j}(v))", setter_stem(f))
            };
            let _ = writeln!(o, "            {j} => Box::new(G({call})),");
        }
    }
    let _ = writeln!(o, "            _ => panic!(\"HARNESS: field {{f}} is not writable\"),\n        }}\n    }}");
    let _ = writeln!(o, "    fn set(&mut self, f: usize, i: usize, v: u128) {{\n        match f {{");
    for (j, f) in l.fields.iter().enumerate() {
        if f.access.writable() {
            let call = if f.array.is_some() {
                format!("self.0.set_{}(i, in_{j}(v))", setter_stem(f))
            } else {
                format!("self.0.set_{}(in_{j}(v))", setter_stem(f))
            };
            let _ = writeln!(o, "            {j} => {call},");
        }
    }
    let _ = writeln!(o, "            _ => panic!(\"HARNESS: field {{f}} is not writable\"),\n        }}\n    }}");
    if l.fields.iter().any(|f| f.kind == Kind::Nested && f.type_width.is_none()) {
        let _ = writeln!(o, "    fn supplied(&self, f: usize, v: u128) -> u128 {{\n        match f {{");
        for (j, f) in l.fields.iter().enumerate() {
            if f.kind == Kind::Nested && f.type_width.is_none() {
                let _ = writeln!(o, "            {j} => {},", uint_out(f.value_width(), &format!("in_{j}(v).raw_value()")));
            }
        }
        let _ = writeln!(o, "            _ => v,\n        }}\n    }}");
    }
    let _ = writeln!(o, "    fn clone_box(&self) -> Box<dyn Reg> {{ let c: T = self.0; Box::new(G(c)) }}");
    let _ = writeln!(o, "    fn rewrap(&self) -> Box<dyn Reg> {{ Box::new(G(T::new_with_raw_value(self.0.raw_value()))) }}");
    let _ = writeln!(
        o,
        "    fn same(&self, other: &dyn Reg) -> bool {{ match other.as_any().downcast_ref::<G>() {{ Some(o) => self.0 == o.0, None => panic!(\"HARNESS: same() across layouts\") }} }}"
    );
    let _ = writeln!(o, "    fn as_any(&self) -> &dyn std::any::Any {{ self }}");
    let _ = writeln!(
        o,
        "    fn operator(&self, op: u8, other: Option<&dyn Reg>) -> Option<Box<dyn Reg>> {{\n        let me: T = self.0;\n        let rhs: T = match other {{ Some(o) => match o.as_any().downcast_ref::<G>() {{ Some(g) => g.0, None => panic!(\"HARNESS: operator() across layouts\") }}, None => me }};\n        let r: Option<T> = match op {{\n            OP_NOT => (&Probe(me)).try_not(),\n            OP_AND => (&Probe(me)).try_and(rhs),\n            OP_OR => (&Probe(me)).try_or(rhs),\n            OP_XOR => (&Probe(me)).try_xor(rhs),\n            _ => None,\n        }};\n        r.map(|t| Box::new(G(t)) as Box<dyn Reg>)\n    }}\n}}\n"
    );

    let _ = writeln!(o, "pub fn make(raw: u128) -> Box<dyn Reg> {{ Box::new(G(T::new_with_raw_value({}))) }}", uint_in(n, "raw"));
    let _ = writeln!(o, "pub fn special(k: u8) -> Option<Box<dyn Reg>> {{\n    match k {{\n        SPECIAL_ZERO => Some(Box::new(G(T::ZERO))),");
    if l.default.is_some() {
        let _ = writeln!(o, "        SPECIAL_DEFAULT_CONST => Some(Box::new(G(T::DEFAULT))),");
        let _ = writeln!(o, "        SPECIAL_DEFAULT_TRAIT => Some(Box::new(G(<T as Default>::default()))),");
        let _ = writeln!(o, "        SPECIAL_NEW => Some(Box::new(G(T::new()))),");
    }
    let _ = writeln!(o, "        _ => None,\n    }}\n}}");
    o
}

/// Number of u128 arguments `build` takes, and for each the (field index, element index).
pub fn builder_args(l: &Layout) -> Vec<(usize, u32)> {
    let mut v = Vec::new();
    for (j, f) in l.fields.iter().enumerate() {
        if f.access.writable() {
            for i in 0..f.count() {
                v.push((j, i));
            }
        }
    }
    v
}

pub fn builder_module(l: &Layout) -> String {
    let mut o = String::new();
    let _ = writeln!(o, "// builder glue for layout {}", l.id);
    let _ = writeln!(o, "#![allow(dead_code, unused_imports, unused_variables, deprecated, clippy::all)]");
    let _ = writeln!(o, "use super::l{}::*;\nuse simcore::reg::*;\n", l.id);
    let _ = writeln!(o, "pub fn build(a: &[u128]) -> Box<dyn Reg> {{\n    let b = T::builder()");
    let mut k = 0usize;
    for (j, f) in l.fields.iter().enumerate() {
        if !f.access.writable() {
            continue;
        }
        match f.array {
            None => {
                let _ = writeln!(o, "        .with_{}(in_{j}(a[{k}]))", setter_stem(f));
                k += 1;
            }
            Some(a) => {
                let elems: Vec<String> = (0..a.count as usize).map(|e| format!("in_{j}(a[{}])", k + e)).collect();
                let _ = writeln!(o, "        .with_{}([{}])", setter_stem(f), elems.join(", "));
                k += a.count as usize;
            }
        }
    }
    let _ = writeln!(o, "        .build();\n    Box::new(G(b))\n}}");
    o
}

pub struct ShardMember {
    pub id: u32,
    pub with_builder: bool,
}

pub fn main_rs(members: &[ShardMember]) -> String {
    let mut o = String::new();
    let _ = writeln!(o, "// generated shard driver");
    for m in members {
        let _ = writeln!(o, "mod l{};", m.id);
        if m.with_builder {
            let _ = writeln!(o, "mod l{}_b;", m.id);
        }
    }
    let _ = writeln!(o, "use simcore::reg::Entry;\nstatic ENTRIES: &[Entry] = &[");
    for m in members {
        let b = if m.with_builder { format!("Some(l{}_b::build)", m.id) } else { "None".to_string() };
        let _ = writeln!(o, "    Entry {{ id: {0}, make: l{0}::make, special: l{0}::special, build: {1} }},", m.id, b);
    }
    let _ = writeln!(o, "];\nstatic LAYOUTS: &str = include_str!(\"../layouts.json\");");
    let _ = writeln!(o, "fn main() {{\n    std::process::exit(simcore::driver::main(LAYOUTS, ENTRIES));\n}}");
    o
}

pub fn shard_cargo_toml(name: &str, simcore_path: &str, repo_path: &str) -> String {
    format!(
        "[package]\nname = \"{name}\"\nversion = \"0.0.0\"\nedition = \"2021\"\npublish = false\n\n[dependencies]\nsimcore = {{ path = \"{simcore_path}\" }}\nbitbybit = {{ path = \"{repo_path}/bitbybit\" }}\narbitrary-int = \"=1.3.0\"\n"
    )
}

pub fn workspace_cargo_toml(members: &[String]) -> String {
    let list: Vec<String> = members.iter().map(|m| format!("\"{m}\"")).collect();
    // Two profiles, same seeds: `dev` is the checked one (overflow checks and debug assertions
    // on, no optimisation); `fast` turns both off and optimises, like a user's release build.
    format!(
        "[workspace]\nresolver = \"2\"\nmembers = [{}]\n\n[profile.dev]\nopt-level = 0\ndebug = false\noverflow-checks = true\ndebug-assertions = true\nincremental = false\n\n[profile.fast]\ninherits = \"dev\"\nopt-level = 1\noverflow-checks = false\ndebug-assertions = false\n\n# the simulator itself is optimised in both profiles (its overflow checks stay on in `dev`);\n# only the generated declarations, their glue and arbitrary-int are built the way a user's\n# debug build would build them\n[profile.dev.package.simcore]\nopt-level = 2\n\n[profile.dev.package.serde]\nopt-level = 2\n\n[profile.dev.package.serde_json]\nopt-level = 2\n\n[profile.dev.build-override]\nopt-level = 0\ndebug = false\n# the macro itself is compiled the way a release build of the user's crate compiles it (cargo's\n# build-override inherits overflow-checks = false from [profile.release]): its own arithmetic\n# wraps instead of panicking, which is the more permissive of the two real configurations\noverflow-checks = false\n\n[profile.fast.build-override]\nopt-level = 0\ndebug = false\n",
        list.join(", ")
    )
}
