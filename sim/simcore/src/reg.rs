//! The seam between the simulator (compiled once) and the generated bitfield types (compiled per
//! layout): one object-safe trait. Its implementations are emitted by emit.rs and consist only of
//! `match f { k => self.0.with_fk(i, <conv>(v)) ... }`.

use std::any::Any;

/// Tag that accompanies a value read through a getter.
pub const TAG_PLAIN: u8 = 0;
pub const TAG_OK: u8 = 1;
pub const TAG_ERR: u8 = 2;

pub trait Reg: Any {
    /// `raw_value()` widened to u128
    fn raw(&self) -> u128;
    /// getter of field `f`, element `i`: (bit pattern recovered from the result, tag)
    fn read(&self, f: usize, i: usize) -> (u128, u8);
    /// `with_<f>(i, v)`; the receiver is `&self`
    fn with(&self, f: usize, i: usize, v: u128) -> Box<dyn Reg>;
    /// `set_<f>(i, v)`
    fn set(&mut self, f: usize, i: usize, v: u128);
    /// The bits the argument conversion of `with`/`set` actually hands to the setter of field
    /// `f` for the bit pattern `v`. For a nested-bitfield field the argument is
    /// `Inner::new_with_raw_value(v)` and what it carries is its own `raw_value()`: if the tree
    /// under test breaks that round trip (C06's statement) the outer write still has to be
    /// judged by what was supplied, not by what the harness meant to supply.
    fn supplied(&self, _f: usize, v: u128) -> u128 {
        v
    }
    /// `Copy`
    fn clone_box(&self) -> Box<dyn Reg>;
    /// `T::new_with_raw_value(self.raw_value())` without any conversion by the harness
    fn rewrap(&self) -> Box<dyn Reg>;
    /// `==` as derived by `#[derive(PartialEq)]` on the bitfield struct
    fn same(&self, other: &dyn Reg) -> bool;
    fn as_any(&self) -> &dyn Any;
    /// Operator traits the macro under test may or may not implement for the generated type
    /// (`!x`, `x & y`, `x | y`, `x ^ y`): Some(result) if the operator exists, None if not.
    /// The pinned macro implements none of them; a macro that adds them adds operations, and C11
    /// quantifies over any sequence of operations.
    fn operator(&self, op: u8, other: Option<&dyn Reg>) -> Option<Box<dyn Reg>>;
}

pub const OP_NOT: u8 = 0;
pub const OP_AND: u8 = 1;
pub const OP_OR: u8 = 2;
pub const OP_XOR: u8 = 3;

/// Autoref specialisation: `(&Probe(x)).try_not()` resolves to the bounded impl on `Probe<X>` if
/// `X: Not<Output = X>` holds and to the fallback on `&Probe<X>` (which returns None) otherwise.
pub struct Probe<X>(pub X);

pub trait ViaNot<X> {
    fn try_not(&self) -> Option<X>;
}
impl<X: Copy + core::ops::Not<Output = X>> ViaNot<X> for Probe<X> {
    fn try_not(&self) -> Option<X> {
        Some(!self.0)
    }
}
pub trait ViaNoNot<X> {
    fn try_not(&self) -> Option<X> {
        None
    }
}
impl<X> ViaNoNot<X> for &Probe<X> {}

pub trait ViaAnd<X> {
    fn try_and(&self, o: X) -> Option<X>;
}
impl<X: Copy + core::ops::BitAnd<Output = X>> ViaAnd<X> for Probe<X> {
    fn try_and(&self, o: X) -> Option<X> {
        Some(self.0 & o)
    }
}
pub trait ViaNoAnd<X> {
    fn try_and(&self, _o: X) -> Option<X> {
        None
    }
}
impl<X> ViaNoAnd<X> for &Probe<X> {}

pub trait ViaOr<X> {
    fn try_or(&self, o: X) -> Option<X>;
}
impl<X: Copy + core::ops::BitOr<Output = X>> ViaOr<X> for Probe<X> {
    fn try_or(&self, o: X) -> Option<X> {
        Some(self.0 | o)
    }
}
pub trait ViaNoOr<X> {
    fn try_or(&self, _o: X) -> Option<X> {
        None
    }
}
impl<X> ViaNoOr<X> for &Probe<X> {}

pub trait ViaXor<X> {
    fn try_xor(&self, o: X) -> Option<X>;
}
impl<X: Copy + core::ops::BitXor<Output = X>> ViaXor<X> for Probe<X> {
    fn try_xor(&self, o: X) -> Option<X> {
        Some(self.0 ^ o)
    }
}
pub trait ViaNoXor<X> {
    fn try_xor(&self, _o: X) -> Option<X> {
        None
    }
}
impl<X> ViaNoXor<X> for &Probe<X> {}

/// Which pre-made value to start from.
pub const SPECIAL_ZERO: u8 = 0;
pub const SPECIAL_DEFAULT_CONST: u8 = 1;
pub const SPECIAL_DEFAULT_TRAIT: u8 = 2;
pub const SPECIAL_NEW: u8 = 3;

pub struct Entry {
    pub id: u32,
    pub make: fn(u128) -> Box<dyn Reg>,
    /// ZERO / DEFAULT / Default::default() / new(); None where the layout has no default
    pub special: fn(u8) -> Option<Box<dyn Reg>>,
    /// `builder().with_..(..)...build()`; arguments are flattened in declaration order of the
    /// writable fields, arrays contributing `count` values
    pub build: Option<fn(&[u128]) -> Box<dyn Reg>>,
}
