//! The seam between the simulator (compiled once) and the generated bitfield types (compiled per
//! layout): one object-safe trait. Its implementations are emitted by emit.rs and consist only of
//! `match f { k => self.0.with_fk(i, <conv>(v)) ... }`.

use std::any::Any;

/// Tag that accompanies a value read through a getter.
pub const TAG_PLAIN: u8 = 0;
pub const TAG_OK: u8 = 1;
pub const TAG_ERR: u8 = 2;

pub trait Reg: Any {
    /// `raw_value()` widened to u128
    fn raw(&self) -> u128;
    /// getter of field `f`, element `i`: (bit pattern recovered from the result, tag)
    fn read(&self, f: usize, i: usize) -> (u128, u8);
    /// `with_<f>(i, v)`; the receiver is `&self`
    fn with(&self, f: usize, i: usize, v: u128) -> Box<dyn Reg>;
    /// `set_<f>(i, v)`
    fn set(&mut self, f: usize, i: usize, v: u128);
    /// `Copy`
    fn clone_box(&self) -> Box<dyn Reg>;
    /// `T::new_with_raw_value(self.raw_value())` without any conversion by the harness
    fn rewrap(&self) -> Box<dyn Reg>;
    /// `==` as derived by `#[derive(PartialEq)]` on the bitfield struct
    fn same(&self, other: &dyn Reg) -> bool;
    fn as_any(&self) -> &dyn Any;
}

/// Which pre-made value to start from.
pub const SPECIAL_ZERO: u8 = 0;
pub const SPECIAL_DEFAULT_CONST: u8 = 1;
pub const SPECIAL_DEFAULT_TRAIT: u8 = 2;
pub const SPECIAL_NEW: u8 = 3;

pub struct Entry {
    pub id: u32,
    pub make: fn(u128) -> Box<dyn Reg>,
    /// ZERO / DEFAULT / Default::default() / new(); None where the layout has no default
    pub special: fn(u8) -> Option<Box<dyn Reg>>,
    /// `builder().with_..(..)...build()`; arguments are flattened in declaration order of the
    /// writable fields, arrays contributing `count` values
    pub build: Option<fn(&[u128]) -> Box<dyn Reg>>,
}
