//! Reference register: N bits in a u128, written and read bit by bit through the positions that
//! the layout description assigns to a field element. Small enough to be correct by inspection.

use crate::layout::Field;

/// Write the W-bit pattern `v` through field `f`, element `idx`: the k-th position receives bit k.
pub fn write(state: u128, f: &Field, idx: u32, v: u128) -> u128 {
    let mut s = state;
    for (k, p) in f.positions(idx).into_iter().enumerate() {
        let bit = (v >> k) & 1;
        s = (s & !(1u128 << p)) | (bit << p);
    }
    s
}

/// Gather the W-bit pattern of field `f`, element `idx`.
pub fn read(state: u128, f: &Field, idx: u32) -> u128 {
    let mut v = 0u128;
    for (k, p) in f.positions(idx).into_iter().enumerate() {
        v |= ((state >> p) & 1) << k;
    }
    v
}

#[cfg(test)]
mod tests {
    use super::*;
    use crate::layout::{Access, Arr, Kind};

    fn f(ranges: Vec<(u32, u32)>, array: Option<Arr>) -> Field {
        Field { name: "x".into(), kind: Kind::Arb, ranges, array, access: Access::RW, qualified: false, type_width: None, attr_order: 0, variant_rot: 0, doc: 0, share_with: None, zero_pad: false, claims_exhaustive: false, syntax: 0 }
    }

    // Anchor histories computed by hand from the README / test-suite examples.
    #[test]
    fn anchors() {
        // README: bits 12..=15 of 0x1234_5678_ABCD_EFFF are 0xE ... (field at 12..=15)
        let a = f(vec![(12, 15)], None);
        assert_eq!(read(0xEFFF, &a, 0), 0xE);
        // test suite: every_other_bit [0,2,4,6] stride 1 on 0b01101101 -> elem0 = 0b1011, elem1 = 0b0110
        let e = f(vec![(0, 0), (2, 2), (4, 4), (6, 6)], Some(Arr { count: 2, stride: 1, explicit: true }));
        assert_eq!(read(0b0110_1101, &e, 0), 0b1011);
        assert_eq!(read(0b0110_1101, &e, 1), 0b0110);
        // builder example: with_every_other_bit([0b0110, 0b1100]) -> 0b10110100
        let s = write(0, &e, 0, 0b0110);
        let s = write(s, &e, 1, 0b1100);
        assert_eq!(s, 0b1011_0100);
        // nibble array, stride 8: element 2 of 0x00AB00CD00EF sits at bits 16..=19
        let n = f(vec![(0, 3)], Some(Arr { count: 4, stride: 8, explicit: true }));
        assert_eq!(read(0x00AB_00CD_00EF, &n, 2), 0xD);
        assert_eq!(write(0xFFFF_FFFF, &n, 1, 0), 0xFFFF_F0FF);
        // last write wins, disjoint writes commute
        let lo = f(vec![(0, 3)], None);
        let hi = f(vec![(4, 7)], None);
        assert_eq!(write(write(0, &lo, 0, 5), &hi, 0, 9), write(write(0, &hi, 0, 9), &lo, 0, 5));
        assert_eq!(write(write(0xFF, &lo, 0, 5), &lo, 0, 2), 0xF2);
        // reversed range list: first range supplies the low bits
        let sw = f(vec![(4, 7), (0, 3)], None);
        assert_eq!(read(0xAB, &sw, 0), 0xBA);
        assert_eq!(write(0, &sw, 0, 0xBA), 0xAB);
        // bit 127
        let top = f(vec![(127, 127)], None);
        assert_eq!(write(0, &top, 0, 1), 1u128 << 127);
        assert_eq!(read(u128::MAX, &top, 0), 1);
    }

    #[test]
    fn write_then_read_is_identity_and_isolated() {
        use crate::layout::{gen_layout, GenOpts};
        use crate::prng::{mask, Rng};
        for seed in 0..500u64 {
            let mut r = Rng::new(seed);
            let l = gen_layout(&mut r, 0, GenOpts { arb_only: false });
            for fl in &l.fields {
                if fl.self_overlap() {
                    continue;
                }
                for i in 0..fl.count() {
                    let s0 = r.next_u128() & mask(l.bits);
                    let v = r.next_u128() & mask(fl.width());
                    let s1 = write(s0, fl, i, v);
                    assert_eq!(read(s1, fl, i), v);
                    assert_eq!(s1 & !fl.bitmask(i), s0 & !fl.bitmask(i));
                    assert!(s1 <= mask(l.bits));
                }
            }
        }
    }
}
