//! Deterministic pseudo-random source. Everything the simulator decides is drawn from here and
//! everything here is derived from one integer (VERIF_SEED). No external crate, so the streams
//! can never change underneath recorded seeds.

#[inline]
pub fn splitmix64(x: &mut u64) -> u64 {
    *x = x.wrapping_add(0x9E37_79B9_7F4A_7C15);
    let mut z = *x;
    z = (z ^ (z >> 30)).wrapping_mul(0xBF58_476D_1CE4_E5B9);
    z = (z ^ (z >> 27)).wrapping_mul(0x94D0_49BB_1331_11EB);
    z ^ (z >> 31)
}

/// Order-sensitive combination of several integers into one seed.
pub fn mix(parts: &[u64]) -> u64 {
    let mut h: u64 = 0x243F_6A88_85A3_08D3;
    for &p in parts {
        let mut s = h ^ p.wrapping_mul(0x9E37_79B9_7F4A_7C15);
        h = splitmix64(&mut s).rotate_left(17) ^ p;
        let mut t = h;
        h = splitmix64(&mut t);
    }
    h
}

pub const TAG_LAYOUT: u64 = 0x4c41_594f_5554; // "LAYOUT"
pub const TAG_RUN: u64 = 0x52_554e; // "RUN"
pub const TAG_PROBE: u64 = 0x5052_4f42_45; // "PROBE"

/// xoshiro256**
#[derive(Clone, Debug)]
pub struct Rng {
    s: [u64; 4],
}

impl Rng {
    pub fn new(seed: u64) -> Self {
        let mut x = seed;
        let s = [
            splitmix64(&mut x),
            splitmix64(&mut x),
            splitmix64(&mut x),
            splitmix64(&mut x),
        ];
        Rng { s }
    }

    #[inline]
    pub fn next_u64(&mut self) -> u64 {
        let result = self.s[1].wrapping_mul(5).rotate_left(7).wrapping_mul(9);
        let t = self.s[1] << 17;
        self.s[2] ^= self.s[0];
        self.s[3] ^= self.s[1];
        self.s[1] ^= self.s[2];
        self.s[0] ^= self.s[3];
        self.s[2] ^= t;
        self.s[3] = self.s[3].rotate_left(45);
        result
    }

    pub fn next_u128(&mut self) -> u128 {
        ((self.next_u64() as u128) << 64) | self.next_u64() as u128
    }

    /// Uniform in [0, n); n must be > 0. (Modulo bias is irrelevant here: this is a sampler, not
    /// a statistical tool, and it must be reproducible rather than perfectly uniform.)
    #[inline]
    pub fn below(&mut self, n: u64) -> u64 {
        assert!(n > 0, "HARNESS: below(0)");
        self.next_u64() % n
    }

    /// Uniform in [lo, hi], inclusive.
    #[inline]
    pub fn range(&mut self, lo: u64, hi: u64) -> u64 {
        assert!(lo <= hi, "HARNESS: range({lo},{hi})");
        lo + self.below(hi - lo + 1)
    }

    #[inline]
    pub fn usize_below(&mut self, n: usize) -> usize {
        self.below(n as u64) as usize
    }

    /// true with probability num/den
    #[inline]
    pub fn chance(&mut self, num: u64, den: u64) -> bool {
        self.below(den) < num
    }

    pub fn pick<'a, T>(&mut self, xs: &'a [T]) -> &'a T {
        let i = self.usize_below(xs.len());
        &xs[i]
    }

    /// Index chosen according to integer weights.
    pub fn weighted(&mut self, weights: &[u64]) -> usize {
        let total: u64 = weights.iter().sum();
        assert!(total > 0, "HARNESS: weighted() with zero total");
        let mut r = self.below(total);
        for (i, &w) in weights.iter().enumerate() {
            if r < w {
                return i;
            }
            r -= w;
        }
        weights.len() - 1
    }

    pub fn shuffle<T>(&mut self, xs: &mut [T]) {
        for i in (1..xs.len()).rev() {
            let j = self.usize_below(i + 1);
            xs.swap(i, j);
        }
    }
}

#[inline]
pub fn mask(w: u32) -> u128 {
    if w >= 128 {
        u128::MAX
    } else {
        (1u128 << w) - 1
    }
}

/// A w-bit pattern biased towards the shapes that expose masking, clearing and sign errors.
pub fn biased_bits(rng: &mut Rng, w: u32) -> u128 {
    let m = mask(w);
    let v = match rng.below(16) {
        0 => 0,
        1 => m,
        2 => 1u128 << rng.below(w as u64),                     // one-hot
        3 => m >> 1,                                           // 0111..1
        4 => 1u128 << (w - 1),                                 // 1000..0 (most negative)
        5 => 0x5555_5555_5555_5555_5555_5555_5555_5555u128,    // alternating
        6 => 0xAAAA_AAAA_AAAA_AAAA_AAAA_AAAA_AAAA_AAAAu128,
        7 => m ^ (1u128 << rng.below(w as u64)),               // one-cold
        8 => rng.next_u128() & rng.next_u128() & rng.next_u128(), // sparse
        9 => rng.next_u128() | rng.next_u128() | rng.next_u128(), // dense
        // values around an internal power-of-two boundary (where a fast path for "fits in k
        // bits", a carry or a sub-width sign bit would sit): 2^k - 1, 2^k, 2^k + 1, and the same
        // counted down from the maximum
        10 | 11 => {
            let k = boundary_bit(rng, w);
            let b = 1u128 << k;
            match rng.below(5) {
                0 => b.wrapping_sub(1),
                1 => b,
                2 => b.wrapping_add(1),
                3 => m.wrapping_sub(b),
                _ => m.wrapping_sub(b).wrapping_add(1),
            }
        }
        12 => m.wrapping_sub(1),
        _ => rng.next_u128(),
    };
    v & m
}

/// a bit position inside a w-bit value, biased to the native-width boundaries 7/8, 15/16, 31/32, 63/64
fn boundary_bit(rng: &mut Rng, w: u32) -> u32 {
    let natives: Vec<u32> = [7u32, 8, 15, 16, 31, 32, 63, 64].iter().copied().filter(|&k| k < w).collect();
    if !natives.is_empty() && rng.chance(1, 2) {
        *rng.pick(&natives)
    } else {
        rng.below(w as u64) as u32
    }
}

#[cfg(test)]
mod tests {
    use super::*;
    #[test]
    fn reproducible() {
        let mut a = Rng::new(42);
        let mut b = Rng::new(42);
        for _ in 0..1000 {
            assert_eq!(a.next_u64(), b.next_u64());
        }
        assert_ne!(mix(&[1, 2]), mix(&[2, 1]));
        assert_eq!(mask(128), u128::MAX);
        assert_eq!(mask(1), 1);
        for w in 1..=128 {
            let mut r = Rng::new(w as u64);
            for _ in 0..200 {
                assert!(biased_bits(&mut r, w) <= mask(w));
            }
        }
    }
}
