//! The simulator's own description of a bitfield declaration. Both the declaration text that the
//! macro sees (emit.rs) and the reference register (model.rs) are derived from this data; the
//! macro never sees anything but text, so the oracle does not depend on parsing.rs or codegen.rs.

use crate::prng::{mask, Rng};
use serde::{Deserialize, Serialize};

/// u128 carried through JSON as a hex string (JSON numbers stop at 2^53 / u64 in most readers).
#[derive(Clone, Copy, Debug, PartialEq, Eq, PartialOrd, Ord, Hash)]
pub struct Hex(pub u128);

impl Serialize for Hex {
    fn serialize<S: serde::Serializer>(&self, s: S) -> Result<S::Ok, S::Error> {
        s.serialize_str(&format!("{:#x}", self.0))
    }
}
impl<'de> Deserialize<'de> for Hex {
    fn deserialize<D: serde::Deserializer<'de>>(d: D) -> Result<Self, D::Error> {
        let s = String::deserialize(d)?;
        let t = s.strip_prefix("0x").unwrap_or(&s);
        u128::from_str_radix(t, 16)
            .map(Hex)
            .map_err(|e| serde::de::Error::custom(format!("bad hex {s}: {e}")))
    }
}

#[derive(Clone, Debug, PartialEq, Eq, Serialize, Deserialize)]
pub enum Kind {
    /// `bool`, exactly one bit
    Bool,
    /// arbitrary-int `uW`, W not a native width
    Arb,
    /// native `u8 .. u128`
    Native,
    /// native `i8 .. i128`
    Signed,
    /// exhaustive bitenum with all 2^W variants, used as `E`
    EnumExh,
    /// non-exhaustive bitenum with the listed discriminants, used as `Option<E>`
    EnumOpt { discs: Vec<Hex> },
    /// another bitfield with base `uW`, used as a custom field type
    Nested,
}

#[derive(Clone, Copy, Debug, PartialEq, Eq, Serialize, Deserialize)]
pub enum Access {
    RW,
    R,
    W,
}

impl Access {
    pub fn readable(self) -> bool {
        matches!(self, Access::RW | Access::R)
    }
    pub fn writable(self) -> bool {
        matches!(self, Access::RW | Access::W)
    }
    pub fn text(self) -> &'static str {
        match self {
            Access::RW => "rw",
            Access::R => "r",
            Access::W => "w",
        }
    }
}

#[derive(Clone, Copy, Debug, PartialEq, Eq, Serialize, Deserialize)]
pub struct Arr {
    pub count: u32,
    pub stride: u32,
    /// whether `stride = s` is written out (it may be omitted when it equals the element width of
    /// a contiguous element)
    pub explicit: bool,
}

#[derive(Clone, Debug, PartialEq, Eq, Serialize, Deserialize)]
pub struct Field {
    pub name: String,
    pub kind: Kind,
    /// inclusive (lo, hi) ranges in declaration order; the first supplies the least-significant
    /// bits of the field value
    pub ranges: Vec<(u32, u32)>,
    pub array: Option<Arr>,
    pub access: Access,
    /// write the field type with its full path (`arbitrary_int::u5`) instead of the bare alias
    pub qualified: bool,
    /// class-C probes only: the custom type (enum / nested bitfield) of a write-only field is
    /// declared this wide although the field selects fewer bits. The README promises a compile
    /// error for such a mismatch.
    #[serde(default)]
    pub type_width: Option<u32>,
    /// syntactic variant of the attribute (the parser accepts all of them): value % 6 = order of
    /// the arguments, +6 = trailing comma, +12 = legacy `stride: s`; also picks the spelling of an
    /// enum field's `#[bitenum(..)]` attribute and of its discriminants.
    /// Orders: 0 = range, access, stride;
    /// 1 = range, stride, access; 2 = access, range, stride; 3 = stride, range, access;
    /// 4 = access, stride, range; 5 = stride, access, range
    #[serde(default)]
    pub attr_order: u8,
    /// exhaustive enums only: declaration order of the variants. 0 = ascending discriminants;
    /// otherwise the k-th declared variant has discriminant (k * (rot | 1) + rot) mod 2^W
    #[serde(default)]
    pub variant_rot: u32,
    /// put a `///` doc comment (passed through to getter and setters) before or after the
    /// bit attribute: 0 = none, 1 = before, 2 = after
    #[serde(default)]
    pub doc: u8,
    /// enum / nested kinds only: use the type declared for this earlier field instead of
    /// declaring a new one (two fields of one bitfield sharing a bitenum is the common case in
    /// real register maps)
    #[serde(default)]
    pub share_with: Option<usize>,
}

impl Field {
    pub fn width(&self) -> u32 {
        self.ranges.iter().map(|&(lo, hi)| hi - lo + 1).sum()
    }
    pub fn count(&self) -> u32 {
        self.array.map_or(1, |a| a.count)
    }
    pub fn stride(&self) -> u32 {
        self.array.map_or(0, |a| a.stride)
    }
    /// bit positions of element `idx`, least-significant value bit first
    pub fn positions(&self, idx: u32) -> Vec<u32> {
        let off = idx * self.stride();
        let mut v = Vec::with_capacity(self.width() as usize);
        for &(lo, hi) in &self.ranges {
            for b in lo..=hi {
                v.push(b + off);
            }
        }
        v
    }
    /// highest bit addressed by any element
    pub fn top_bit(&self) -> u32 {
        let hi = self.ranges.iter().map(|r| r.1).max().unwrap_or(0);
        hi + (self.count() - 1) * self.stride()
    }
    /// union of all bits addressed by any element (bits >= 128 are ignored)
    pub fn bitmask_all(&self) -> u128 {
        let mut m = 0u128;
        for i in 0..self.count() {
            m |= self.bitmask(i);
        }
        m
    }
    pub fn bitmask(&self, idx: u32) -> u128 {
        let mut m = 0u128;
        for p in self.positions(idx) {
            if p < 128 {
                m |= 1u128 << p;
            }
        }
        m
    }
    /// true if two different elements of this field, or two ranges of one element, share a bit
    pub fn self_overlap(&self) -> bool {
        let mut m = 0u128;
        for i in 0..self.count() {
            for p in self.positions(i) {
                if p >= 128 {
                    continue;
                }
                if m & (1u128 << p) != 0 {
                    return true;
                }
                m |= 1u128 << p;
            }
        }
        false
    }
    /// width of the declared field type (differs from `width()` only in class-C probes)
    pub fn value_width(&self) -> u32 {
        self.type_width.unwrap_or_else(|| self.width())
    }
    /// discriminants of an exhaustive enum field in declaration order
    pub fn exhaustive_variants(&self) -> Vec<u128> {
        let w = self.value_width();
        let n = 1u128 << w;
        let step = (self.variant_rot | 1) as u128;
        let rot = self.variant_rot as u128;
        (0..n).map(|k| if self.variant_rot == 0 { k } else { (k * step + rot) % n }).collect()
    }
    /// values that may be written through this field: None = any pattern of `value_width()`
    /// bits, Some = listed
    pub fn legal_values(&self) -> Option<Vec<u128>> {
        match &self.kind {
            Kind::EnumOpt { discs } => Some(discs.iter().map(|h| h.0).collect()),
            _ => None,
        }
    }
}

#[derive(Clone, Debug, PartialEq, Eq, Serialize, Deserialize)]
pub struct DefaultDecl {
    pub value: Hex,
    /// 0: `default = <lit>`, 1: `default: <lit>` (legacy), 2: `default = NAMED_CONST`,
    /// 3: `default = <lit>u<storage>` (suffixed), 4: `default = 1_234` (decimal with separators),
    /// 5: `default: NAMED_CONST`
    pub form: u8,
}

#[derive(Clone, Debug, PartialEq, Eq, Serialize, Deserialize)]
pub struct Layout {
    pub id: u32,
    /// declared base width N (1..=128); the base is native iff N in {8,16,32,64,128}
    pub bits: u32,
    pub default: Option<DefaultDecl>,
    pub fields: Vec<Field>,
    /// "A" = rule-valid generated layout; "B:<name>" = boundary probe that addresses a bit >= N
    pub class: String,
    /// `#[bitfield(.., debug)]`: only set when every field is readable and none is an array (the
    /// generated Debug impl calls every getter without arguments)
    #[serde(default)]
    pub debug: bool,
}

pub fn is_native(bits: u32) -> bool {
    matches!(bits, 8 | 16 | 32 | 64 | 128)
}

pub fn storage_bits(bits: u32) -> u32 {
    if bits <= 8 {
        8
    } else if bits <= 16 {
        16
    } else if bits <= 32 {
        32
    } else if bits <= 64 {
        64
    } else {
        128
    }
}

impl Layout {
    pub fn is_arb_base(&self) -> bool {
        !is_native(self.bits)
    }
    pub fn storage(&self) -> u32 {
        storage_bits(self.bits)
    }
    /// Would bitbybit (as documented and as implemented at the pinned commit) offer `builder()`?
    /// Only used to decide whether builder glue is worth emitting; a wrong guess costs coverage,
    /// never correctness, because glue that does not compile is dropped.
    pub fn predicts_builder(&self) -> bool {
        let mut running = 0u128;
        for f in &self.fields {
            if !f.access.writable() {
                continue;
            }
            if f.self_overlap() {
                return false;
            }
            let m = f.bitmask_all();
            if m & running != 0 {
                return false;
            }
            running |= m;
        }
        self.default.is_some() || running.count_ones() == self.bits
    }
    /// Does any field address a bit at or above the declared width?
    pub fn addresses_above_base(&self) -> bool {
        self.fields.iter().any(|f| f.top_bit() >= self.bits)
    }
    /// Human-readable declaration, one line (for logs and evidence samples).
    pub fn summary(&self) -> String {
        let mut s = format!("#[bitfield(u{}", self.bits);
        if let Some(d) = &self.default {
            s += &format!(", default = {:#x}", d.value.0);
        }
        if self.debug {
            s += ", debug";
        }
        s += ")] {";
        for f in &self.fields {
            s += &format!(" {}: {}", f.name, field_summary(f));
            s += ";";
        }
        s += " }";
        s
    }
}

pub fn field_summary(f: &Field) -> String {
    let rs: Vec<String> = f
        .ranges
        .iter()
        .map(|&(lo, hi)| if lo == hi { format!("{lo}") } else { format!("{lo}..={hi}") })
        .collect();
    let k = match &f.kind {
        Kind::Bool => "bool".to_string(),
        Kind::Arb | Kind::Native => format!("u{}", f.width()),
        Kind::Signed => format!("i{}", f.width()),
        Kind::EnumExh => format!("enum{}", f.value_width()),
        Kind::EnumOpt { discs } => format!("Option<enum{}/{}>", f.value_width(), discs.len()),
        Kind::Nested => format!("nested{}", f.value_width()),
    };
    let arr = match f.array {
        Some(a) => format!("[{};{}] stride {}", k, a.count, a.stride),
        None => k,
    };
    format!("{} @[{}] {}", arr, rs.join(","), f.access.text())
}

// ------------------------------------------------------------------------------------------------
// Generator of rule-valid layouts (class A)
// ------------------------------------------------------------------------------------------------

#[derive(Clone, Copy, Debug)]
pub struct GenOpts {
    /// only arbitrary-int bases (C11 population)
    pub arb_only: bool,
}

const NATIVE: [u32; 5] = [8, 16, 32, 64, 128];

fn gen_base(rng: &mut Rng, o: GenOpts) -> u32 {
    if !o.arb_only && rng.chance(45, 100) {
        // narrow bases are over-represented on purpose: their state space is small enough to be
        // covered densely
        return *rng.pick(&[8, 8, 16, 16, 32, 32, 64, 64, 128, 128, 128]);
    }
    loop {
        let n = match rng.below(10) {
            // storage-class boundaries and the extremes
            0..=3 => *rng.pick(&[1, 2, 3, 7, 9, 15, 17, 24, 31, 33, 48, 63, 65, 100, 127]),
            4..=5 => rng.range(1, 15) as u32,
            _ => rng.range(1, 127) as u32,
        };
        if !is_native(n) {
            return n;
        }
    }
}

/// Split `w` into `k` positive parts.
fn split(rng: &mut Rng, w: u32, k: u32) -> Vec<u32> {
    let mut cuts: Vec<u32> = Vec::new();
    while (cuts.len() as u32) < k - 1 {
        let c = rng.range(1, (w - 1) as u64) as u32;
        if !cuts.contains(&c) {
            cuts.push(c);
        }
    }
    cuts.sort();
    let mut parts = Vec::new();
    let mut prev = 0;
    for c in cuts {
        parts.push(c - prev);
        prev = c;
    }
    parts.push(w - prev);
    parts
}

fn pick_kind_width(rng: &mut Rng, n: u32, arb_only: bool) -> Option<(Kind, u32)> {
    // weights: Bool, Arb, Native, Signed, EnumExh, EnumOpt, Nested
    // (for the C11 population the kinds whose setter argument is wider than the field -- signed,
    // native, enum and nested raw values -- get a larger share: those are the ones that could
    // spill past bit N-1)
    let k = if arb_only { rng.weighted(&[10, 22, 14, 20, 8, 13, 13]) } else { rng.weighted(&[16, 30, 12, 14, 9, 10, 9]) };
    match k {
        0 => Some((Kind::Bool, 1)),
        1 => {
            for _ in 0..8 {
                let w = if rng.chance(60, 100) {
                    rng.range(1, 12.min(n) as u64) as u32
                } else {
                    rng.range(1, n.min(127) as u64) as u32
                };
                if !is_native(w) {
                    return Some((Kind::Arb, w));
                }
            }
            None
        }
        2 | 3 => {
            let c: Vec<u32> = NATIVE.iter().copied().filter(|&w| w <= n).collect();
            if c.is_empty() {
                return None;
            }
            let w = *rng.pick(&c);
            Some((if k == 2 { Kind::Native } else { Kind::Signed }, w))
        }
        4 => {
            // all 2^W variants are written out, so W stays small; W = 8 takes the native-u8 path
            let w = if n >= 8 && rng.chance(6, 100) {
                8
            } else if n >= 7 && rng.chance(4, 100) {
                rng.range(6, 7) as u32
            } else {
                rng.range(1, 5.min(n) as u64) as u32
            };
            Some((Kind::EnumExh, w))
        }
        5 => {
            let w = match rng.below(10) {
                0..=4 => rng.range(1, 9.min(n) as u64) as u32,
                5..=6 => {
                    let c: Vec<u32> = [8, 16, 32, 64].iter().copied().filter(|&w| w <= n).collect();
                    if c.is_empty() {
                        rng.range(1, n.min(64) as u64) as u32
                    } else {
                        *rng.pick(&c)
                    }
                }
                _ => rng.range(1, n.min(64) as u64) as u32,
            };
            let maxv = mask(w);
            let want = if w == 1 {
                1
            } else if w >= 6 && rng.chance(8, 100) {
                rng.range(9, 40) as usize
            } else {
                rng.range(1, 8.min(maxv as u64) as u64) as usize
            };
            let mut discs: Vec<u128> = Vec::new();
            let mut guard = 0;
            while discs.len() < want && guard < 100 {
                guard += 1;
                let d = match rng.below(6) {
                    0 => 0,
                    1 => maxv,
                    2 => 1u128 << rng.below(w as u64),
                    3 => maxv >> 1,
                    _ => rng.next_u128() & maxv,
                };
                if !discs.contains(&d) {
                    discs.push(d);
                }
            }
            // non-exhaustive means strictly fewer than 2^W variants
            if w <= 3 && discs.len() as u128 == maxv + 1 {
                discs.pop();
            }
            if discs.is_empty() {
                return None;
            }
            Some((Kind::EnumOpt { discs: discs.into_iter().map(Hex).collect() }, w))
        }
        _ => {
            let w = match rng.below(4) {
                0 => {
                    let c: Vec<u32> = NATIVE.iter().copied().filter(|&w| w <= n).collect();
                    if c.is_empty() {
                        rng.range(1, n as u64) as u32
                    } else {
                        *rng.pick(&c)
                    }
                }
                1 => rng.range(1, 12.min(n) as u64) as u32,
                _ => rng.range(1, n as u64) as u32,
            };
            Some((Kind::Nested, w))
        }
    }
}

/// Place `parts` (widths, in value order) at pairwise-disjoint positions inside [0, room), in a
/// random order of positions. Returns inclusive ranges in declaration (= value) order.
fn place_parts(rng: &mut Rng, parts: &[u32], room: u32, bias_top: bool, bias_bottom: bool) -> Vec<(u32, u32)> {
    let total: u32 = parts.iter().sum();
    debug_assert!(total <= room);
    let slack = room - total;
    // positional order of the parts
    let mut order: Vec<usize> = (0..parts.len()).collect();
    if parts.len() > 1 && !rng.chance(25, 100) {
        rng.shuffle(&mut order);
    }
    // distribute slack into len+1 gaps
    let mut gaps = vec![0u32; parts.len() + 1];
    if bias_top {
        // everything pushed to the top: slack goes below
        let mut left = slack;
        for g in gaps.iter_mut().take(parts.len()) {
            let take = if left == 0 { 0 } else { rng.range(0, left as u64) as u32 };
            *g = take;
            left -= take;
        }
        gaps[0] += left;
    } else if bias_bottom {
        let mut left = slack;
        for g in gaps.iter_mut().skip(1) {
            let take = if left == 0 { 0 } else { rng.range(0, left as u64) as u32 };
            *g = take;
            left -= take;
        }
        let last = gaps.len() - 1;
        gaps[last] += left;
    } else {
        let mut left = slack;
        for i in 0..gaps.len() - 1 {
            // adjacent ranges (gap 0) are interesting, so they get extra weight
            let take = if left == 0 || rng.chance(35, 100) { 0 } else { rng.range(0, left as u64) as u32 };
            gaps[i] = take;
            left -= take;
        }
        let last = gaps.len() - 1;
        gaps[last] = left;
    }
    let mut ranges = vec![(0u32, 0u32); parts.len()];
    let mut pos = 0u32;
    for (slot, &pi) in order.iter().enumerate() {
        pos += gaps[slot];
        ranges[pi] = (pos, pos + parts[pi] - 1);
        pos += parts[pi];
    }
    ranges
}

fn gen_field(rng: &mut Rng, n: u32, idx: usize, arb_only: bool) -> Option<Field> {
    let (kind, w) = pick_kind_width(rng, n, arb_only)?;
    if w > n {
        return None;
    }
    let bias_top = rng.chance(if arb_only { 45 } else { 30 }, 100);
    let bias_bottom = !bias_top && rng.chance(15, 100);
    let want_array = n >= 2 * w && rng.chance(30, 100);
    let multi = kind != Kind::Bool && w >= 2 && rng.chance(28, 100);

    let access = match rng.below(10) {
        0 => Access::R,
        1 => Access::W,
        _ => Access::RW,
    };
    let name = format!("f{idx}");
    let qualified = rng.chance(25, 100);

    if !want_array {
        let ranges = if multi {
            let k = rng.range(2, 5.min(w) as u64) as u32;
            let parts = split(rng, w, k);
            place_parts(rng, &parts, n, bias_top, bias_bottom)
        } else {
            place_parts(rng, &[w], n, bias_top, bias_bottom)
        };
        return Some(Field { name, kind, ranges, array: None, access, qualified, type_width: None, attr_order: 0, variant_rot: 0, doc: 0, share_with: None });
    }

    if !multi {
        // contiguous element; stride >= width
        let max_count = n / w;
        let count = if rng.chance(25, 100) { max_count } else { rng.range(2, max_count.min(16) as u64) as u32 };
        let count = count.max(2);
        // stride: width (often), or larger if it fits
        let max_stride = (n - w) / (count - 1);
        let stride = if max_stride <= w || rng.chance(50, 100) {
            w
        } else {
            rng.range(w as u64, max_stride as u64) as u32
        };
        let span = (count - 1) * stride + w;
        let lo = if bias_top {
            n - span
        } else if bias_bottom {
            0
        } else {
            rng.range(0, (n - span) as u64) as u32
        };
        let explicit = stride != w || rng.chance(30, 100);
        return Some(Field {
            name,
            kind,
            ranges: vec![(lo, lo + w - 1)],
            array: Some(Arr { count, stride, explicit }),
            access,
            qualified,
            type_width: None,
            attr_order: 0,
            variant_rot: 0,
            doc: 0,
            share_with: None,
        });
    }

    // non-contiguous elements with explicit stride; elements may interleave
    for _ in 0..12 {
        let k = rng.range(2, 4.min(w) as u64) as u32;
        let parts = split(rng, w, k);
        let count = rng.range(2, (n / w).min(6) as u64) as u32;
        // room for element 0 so that some stride >= 1 still fits
        let min_tail = count - 1; // stride 1
        if w + min_tail > n {
            continue;
        }
        let room0 = rng.range(w as u64, (n - min_tail) as u64) as u32;
        let ranges0 = place_parts(rng, &parts, room0, false, true);
        let hi0 = ranges0.iter().map(|r| r.1).max().unwrap();
        let max_stride = (n - 1 - hi0) / (count - 1);
        if max_stride == 0 {
            continue;
        }
        let allow_overlap = rng.chance(12, 100);
        for _ in 0..10 {
            let stride = if bias_top {
                max_stride
            } else if allow_overlap && rng.chance(1, 4) {
                // degenerate but accepted: every element aliases the same bits
                0
            } else {
                rng.range(1, max_stride as u64) as u32
            };
            let f = Field {
                name: name.clone(),
                kind: kind.clone(),
                ranges: ranges0.clone(),
                array: Some(Arr { count, stride, explicit: true }),
                access,
                qualified,
                type_width: None,
                attr_order: 0,
                variant_rot: 0,
                doc: 0,
                share_with: None,
            };
            if allow_overlap || !f.self_overlap() {
                return Some(f);
            }
            if bias_top {
                break;
            }
        }
    }
    None
}

pub fn gen_layout(rng: &mut Rng, id: u32, o: GenOpts) -> Layout {
    let n = gen_base(rng, o);
    let nfields = match rng.below(10) {
        0..=1 => 1,
        2..=3 => 2,
        4..=5 => 3,
        6 => 4,
        7 => 5,
        8 => rng.range(6, 7) as usize,
        _ => {
            if rng.chance(1, 3) {
                rng.range(9, 16) as usize
            } else {
                8
            }
        }
    };
    // In about half of the layouts fields may overlap each other freely; in the other half a new
    // field is rejected if it overlaps an earlier one (so that builders and commuting writers
    // get a fair share of the population).
    let allow_overlap = rng.chance(50, 100);
    let mut fields: Vec<Field> = Vec::new();
    let mut used = 0u128;
    let mut attempts = 0;
    while fields.len() < nfields && attempts < nfields * 12 {
        attempts += 1;
        // now and then a second field of the same enum / nested type as an earlier one (the
        // common case in real register maps: several fields sharing one bitenum)
        let twin_of: Option<usize> = if rng.chance(12, 100) {
            let c: Vec<usize> = fields
                .iter()
                .enumerate()
                .filter(|(_, e)| e.share_with.is_none() && matches!(e.kind, Kind::EnumExh | Kind::EnumOpt { .. } | Kind::Nested))
                .map(|(k, _)| k)
                .collect();
            if c.is_empty() {
                None
            } else {
                Some(*rng.pick(&c))
            }
        } else {
            None
        };
        let candidate = match twin_of {
            Some(k) => {
                let w = fields[k].width();
                let ranges = place_parts(rng, &[w], n, false, false);
                let mut f = fields[k].clone();
                f.name = format!("f{}", fields.len());
                f.ranges = ranges;
                f.array = None;
                f.share_with = Some(k);
                f.access = if rng.chance(1, 5) { Access::R } else { Access::RW };
                Some(f)
            }
            None => gen_field(rng, n, fields.len(), o.arb_only),
        };
        if let Some(f) = candidate {
            debug_assert!(f.top_bit() < n);
            let m = f.bitmask_all();
            if !allow_overlap && (m & used) != 0 {
                continue;
            }
            used |= m;
            let mut f = f;
            // now and then reuse the enum / nested type of an earlier field of the same width
            if matches!(f.kind, Kind::EnumExh | Kind::EnumOpt { .. } | Kind::Nested) && rng.chance(35, 100) {
                let w = f.width();
                let same = |a: &Kind, b: &Kind| matches!((a, b), (Kind::EnumExh, Kind::EnumExh) | (Kind::EnumOpt { .. }, Kind::EnumOpt { .. }) | (Kind::Nested, Kind::Nested));
                if let Some(k) = fields.iter().position(|e: &Field| e.share_with.is_none() && e.width() == w && same(&e.kind, &f.kind)) {
                    f.kind = fields[k].kind.clone();
                    f.variant_rot = fields[k].variant_rot;
                    f.share_with = Some(k);
                }
            }
            fields.push(f);
        }
    }
    if fields.is_empty() {
        // always possible: one bool at a random bit
        let b = rng.below(n as u64) as u32;
        fields.push(Field {
            name: "f0".into(),
            kind: Kind::Bool,
            ranges: vec![(b, b)],
            array: None,
            access: Access::RW,
            qualified: false,
            type_width: None,
            attr_order: 0,
            variant_rot: 0,
            doc: 0,
            share_with: None,
        });
    }
    for f in fields.iter_mut() {
        if rng.chance(30, 100) {
            // 0..=5: argument order, +6: trailing comma, +12: legacy `stride: s`
            f.attr_order = rng.below(24) as u8;
        }
        if rng.chance(12, 100) {
            f.doc = rng.range(1, 2) as u8;
        }
        if f.kind == Kind::EnumExh && rng.chance(60, 100) {
            f.variant_rot = rng.range(1, 255) as u32;
        }
    }
    for j in 0..fields.len() {
        if let Some(k) = fields[j].share_with {
            fields[j].variant_rot = fields[k].variant_rot;
        }
    }
    // a keyword as field name (raw identifier): the accessors are r#type(), with_type(), set_type()
    if rng.chance(4, 100) {
        let k = rng.usize_below(fields.len());
        fields[k].name = (*rng.pick(&["r#type", "r#match", "r#fn", "r#struct"])).to_string();
    }
    // guarantee at least one writable and one readable field so every layout can do some work
    if !fields.iter().any(|f| f.access.writable()) {
        fields[0].access = Access::RW;
    }
    if !fields.iter().any(|f| f.access.readable()) {
        let l = fields.len() - 1;
        fields[l].access = Access::RW;
    }
    let default = if rng.chance(55, 100) {
        let v = match rng.below(4) {
            0 => 0,
            1 => mask(n),
            _ => rng.next_u128() & mask(n),
        };
        Some(DefaultDecl { value: Hex(v), form: rng.below(6) as u8 })
    } else {
        None
    };
    let debug = fields.iter().all(|f| f.access.readable() && f.array.is_none()) && rng.chance(15, 100);
    Layout { id, bits: n, default, fields, class: "A".into(), debug }
}

// ------------------------------------------------------------------------------------------------
// Boundary probes (class B): declarations that address at least one bit in [N, storage width).
// Whether the macro accepts them is decided by the tree under test; an accepted probe is simulated
// like any other layout.
// ------------------------------------------------------------------------------------------------

fn probe(id: u32, n: u32, name: &str, fields: Vec<Field>, default: bool) -> Layout {
    Layout {
        id,
        bits: n,
        default: if default { Some(DefaultDecl { value: Hex(0), form: 0 }) } else { None },
        fields,
        class: format!("B:{name}"),
        debug: false,
    }
}

fn fld(name: &str, kind: Kind, ranges: Vec<(u32, u32)>, array: Option<Arr>) -> Field {
    Field { name: name.into(), kind, ranges, array, access: Access::RW, qualified: false, type_width: None, attr_order: 0, variant_rot: 0, doc: 0, share_with: None }
}

fn kind_for_width(w: u32, rng: &mut Rng) -> Kind {
    if is_native(w) {
        if rng.chance(1, 3) {
            Kind::Signed
        } else {
            Kind::Native
        }
    } else {
        Kind::Arb
    }
}

/// End (exclusive) of a probe array: half of the time exactly one bit too far (off-by-one in a
/// bounds check), otherwise anywhere up to the end of the storage integer.
fn probe_end(rng: &mut Rng, min_end: u32, s: u32) -> u32 {
    if rng.chance(1, 2) {
        min_end
    } else {
        rng.range(min_end as u64, s as u64) as u32
    }
}

/// Probes for one base width. `first_id` numbers them; the list is deterministic given rng.
pub fn gen_probes(rng: &mut Rng, n: u32, first_id: u32) -> Vec<Layout> {
    let s = storage_bits(n);
    let mut out: Vec<Layout> = Vec::new();
    if is_native(n) || n >= s {
        return out;
    }
    let mut id = first_id;
    let mut push = |out: &mut Vec<Layout>, name: &str, mut fields: Vec<Field>, rng: &mut Rng| {
        let d = rng.chance(1, 2);
        // a bounds check may live where one particular argument is parsed: vary the order
        if rng.chance(45, 100) {
            fields[0].attr_order = rng.below(24) as u8;
        }
        out.push(probe(id, n, name, fields, d));
        id += 1;
    };
    // a low companion field so that there is visible state next to the hidden one
    let low = |_rng: &mut Rng| fld("lo", Kind::Bool, vec![(0, 0)], None);

    // 1. scalar bool exactly at N (the first hidden bit) and at storage-1 (the last)
    push(&mut out, "bool-at-N", vec![fld("hi", Kind::Bool, vec![(n, n)], None), low(rng)], rng);
    if s - 1 != n {
        push(&mut out, "bool-at-top-of-storage", vec![fld("hi", Kind::Bool, vec![(s - 1, s - 1)], None), low(rng)], rng);
    }
    // 2. range straddling N-1 / N
    {
        let room_above = s - n;
        let above = if rng.chance(1, 2) { 1 } else { rng.range(1, room_above as u64) as u32 };
        let below = rng.range(1, n.min(8) as u64) as u32;
        let w = above + below;
        let lo = n - below;
        let k = kind_for_width(w, rng);
        push(&mut out, "range-straddles-N", vec![fld("hi", k, vec![(lo, lo + w - 1)], None), low(rng)], rng);
    }
    // 3. range wholly above N
    {
        let w = rng.range(1, (s - n) as u64) as u32;
        let lo = rng.range(n as u64, (s - w) as u64) as u32;
        let k = kind_for_width(w, rng);
        push(&mut out, "range-above-N", vec![fld("hi", k, vec![(lo, lo + w - 1)], None), low(rng)], rng);
    }
    // 3b. the whole hidden part as one field (e.g. u24 base, bits 24..=31 as u8)
    {
        let w = s - n;
        let k = kind_for_width(w, rng);
        push(&mut out, "range-is-hidden-part", vec![fld("hi", k, vec![(n, s - 1)], None), low(rng)], rng);
    }
    // 4. array with default stride whose last element straddles or lies above N
    {
        // element width w, count c, lo chosen so that the array ends inside (N, S]
        for _ in 0..6 {
            let w = rng.range(1, 8.min(n) as u64) as u32;
            let max_c = s / w;
            if max_c < 2 {
                continue;
            }
            let c = rng.range(2, max_c.min(10) as u64) as u32;
            let span = c * w;
            if span > s {
                continue;
            }
            // end (exclusive) in (n, s]
            let min_end = (n + 1).max(span);
            if min_end > s {
                continue;
            }
            let end = probe_end(rng, min_end, s);
            let lo = end - span;
            let k = if w == 1 && rng.chance(1, 2) { Kind::Bool } else { kind_for_width(w, rng) };
            push(
                &mut out,
                "array-default-stride-above-N",
                vec![fld("arr", k, vec![(lo, lo + w - 1)], Some(Arr { count: c, stride: w, explicit: false })), low(rng)],
                rng,
            );
            break;
        }
    }
    // 5. array with explicit stride, last element lies above N
    {
        for _ in 0..6 {
            let w = rng.range(1, 8.min(n) as u64) as u32;
            let stride = w + rng.range(1, 4) as u32;
            let c = rng.range(2, 6) as u32;
            let span = (c - 1) * stride + w;
            if span > s {
                continue;
            }
            let min_end = (n + 1).max(span);
            if min_end > s {
                continue;
            }
            let end = probe_end(rng, min_end, s);
            let lo = end - span;
            let k = if w == 1 { Kind::Bool } else { kind_for_width(w, rng) };
            push(
                &mut out,
                "array-explicit-stride-above-N",
                vec![fld("arr", k, vec![(lo, lo + w - 1)], Some(Arr { count: c, stride, explicit: true })), low(rng)],
                rng,
            );
            break;
        }
    }
    // 6. non-contiguous list with one range above N
    if n >= 2 {
        let off_by_one = rng.chance(1, 2);
        let wa = if off_by_one { 1 } else { rng.range(1, (s - n).min(6) as u64) as u32 };
        let wb = rng.range(1, n.min(6) as u64) as u32;
        let la = if off_by_one { n } else { rng.range(n as u64, (s - wa) as u64) as u32 };
        let lb = rng.range(0, (n - wb) as u64) as u32;
        let w = wa + wb;
        let k = kind_for_width(w, rng);
        let ranges = if rng.chance(1, 2) { vec![(lb, lb + wb - 1), (la, la + wa - 1)] } else { vec![(la, la + wa - 1), (lb, lb + wb - 1)] };
        push(&mut out, "list-with-range-above-N", vec![fld("hi", k, ranges, None), low(rng)], rng);
    }
    // 7. non-contiguous array whose last element reaches above N
    if n >= 4 {
        for _ in 0..8 {
            let wa = rng.range(1, 3) as u32;
            let wb = rng.range(1, 3) as u32;
            let gap = rng.range(1, 3) as u32;
            let span0 = wa + gap + wb;
            let c = rng.range(2, 4) as u32;
            let stride = rng.range(1, 8) as u32;
            let span = span0 + (c - 1) * stride;
            if span > s {
                continue;
            }
            let min_end = (n + 1).max(span);
            if min_end > s {
                continue;
            }
            let end = probe_end(rng, min_end, s);
            let lo = end - span;
            let f = fld(
                "arr",
                kind_for_width(wa + wb, rng),
                vec![(lo, lo + wa - 1), (lo + wa + gap, lo + wa + gap + wb - 1)],
                Some(Arr { count: c, stride, explicit: true }),
            );
            push(&mut out, "list-array-above-N", vec![f, low(rng)], rng);
            break;
        }
    }
    // 8. enum / nested field placed above N
    {
        let w = rng.range(1, (s - n).min(3) as u64) as u32;
        let lo = rng.range(n as u64, (s - w) as u64) as u32;
        push(&mut out, "enum-above-N", vec![fld("hi", Kind::EnumExh, vec![(lo, lo + w - 1)], None), low(rng)], rng);
        let w = rng.range(1, (s - n) as u64) as u32;
        let lo = rng.range(n as u64, (s - w) as u64) as u32;
        push(&mut out, "nested-above-N", vec![fld("hi", Kind::Nested, vec![(lo, lo + w - 1)], None), low(rng)], rng);
    }
    out
}

// ------------------------------------------------------------------------------------------------
// Class C probes: a write-only field whose custom type (bitenum / nested bitfield) is wider than
// the bits the field selects. The README promises a compile error for a width mismatch; for `rw`
// and `r` fields the getter's call to `T::new_with_raw_value(uW)` enforces it, for `w` fields
// nothing does. If the tree under test accepts such a declaration it is simulated: the reference
// register writes exactly the field's bits, so a setter that ORs the whole raw value in is seen
// as a write outside the field (C12) or as state above bit N-1 (C11, field at the top).
// ------------------------------------------------------------------------------------------------

fn nonregular(w: u32) -> bool {
    !is_native(w)
}

pub fn gen_mismatch_probes(rng: &mut Rng, n: u32, first_id: u32, at_top: bool) -> Vec<Layout> {
    let mut out = Vec::new();
    if n < 3 {
        return out;
    }
    let mut id = first_id;
    // (field width, type width) pairs that the macro's two code paths (arbitrary-int raw value
    // with `.value()`, native raw value) can both be asked to accept
    let mut pairs: Vec<(u32, u32, &str)> = Vec::new();
    for _ in 0..3 {
        let w = rng.range(1, (n - 1).min(6) as u64) as u32;
        let tw = w + rng.range(1, 3) as u32;
        if nonregular(w) && nonregular(tw) {
            pairs.push((w, tw, "enum"));
        }
    }
    for _ in 0..2 {
        let w = rng.range(1, (n - 1).min(20) as u64) as u32;
        let tw = (w + rng.range(1, 12) as u32).min(127);
        if nonregular(w) && nonregular(tw) && tw > w {
            pairs.push((w, tw, "nested"));
        }
    }
    for &(w, tw) in &[(8u32, 16u32), (16, 32), (8, 64), (32, 64)] {
        if w < n && rng.chance(1, 2) {
            pairs.push((w, tw, if rng.chance(1, 2) && tw <= 64 { "enum" } else { "nested" }));
        }
    }
    for (w, tw, what) in pairs {
        // position: at the top of the base (spill leaves the base) or below a neighbour
        let lo = if at_top || n == w + 1 && rng.chance(1, 2) {
            n - w
        } else {
            rng.range(0, (n - w - 1) as u64) as u32
        };
        let hi = lo + w - 1;
        let kind = if what == "nested" {
            Kind::Nested
        } else if tw <= 5 {
            Kind::EnumExh
        } else {
            // variants whose discriminant has bits above the field's width
            let m = mask(tw);
            let mut discs: Vec<u128> = vec![m, 1u128 << w, 1];
            let extra = (rng.next_u128() & m) | (1u128 << (tw - 1));
            if !discs.contains(&extra) {
                discs.push(extra);
            }
            discs.sort();
            discs.dedup();
            Kind::EnumOpt { discs: discs.into_iter().map(Hex).collect() }
        };
        let mut fields = vec![Field {
            name: "wide".into(),
            kind,
            ranges: vec![(lo, hi)],
            array: None,
            access: Access::W,
            qualified: false,
            type_width: Some(tw),
            attr_order: 0,
            variant_rot: 0,
            doc: 0,
            share_with: None,
        }];
        if hi + 1 < n {
            let top = (hi + (tw - w)).min(n - 1);
            if top > hi + 1 && nonregular(top - hi) && rng.chance(1, 2) {
                fields.push(fld("nb", Kind::Arb, vec![(hi + 1, top)], None));
            } else {
                fields.push(fld("nb", Kind::Bool, vec![(hi + 1, hi + 1)], None));
            }
        }
        if lo > 0 {
            fields.push(fld("lo", Kind::Bool, vec![(0, 0)], None));
        }
        // a readable view over the mismatched field's own bits, so its content can be observed
        if nonregular(w) {
            let mut v = fld("view", Kind::Arb, vec![(lo, hi)], None);
            v.access = Access::R;
            fields.push(v);
        }
        out.push(Layout {
            id,
            bits: n,
            default: if rng.chance(1, 2) { Some(DefaultDecl { value: Hex(0), form: 0 }) } else { None },
            fields,
            class: format!("C:{what}{tw}-in-{w}-bits-write-only"),
            debug: false,
        });
        id += 1;
    }
    out
}

// ------------------------------------------------------------------------------------------------
// Class D probes: an arbitrary-int base whose `default` has bits at or above N. The pinned tree
// rejects these (`uN::new(default)` is evaluated in a const and panics); a tree that accepts one
// gets it simulated with histories that start from DEFAULT / Default::default() / new() / the
// builder.
// ------------------------------------------------------------------------------------------------

pub fn gen_default_probes(rng: &mut Rng, n: u32, first_id: u32) -> Vec<Layout> {
    let s = storage_bits(n);
    let mut out = Vec::new();
    if is_native(n) || s <= n {
        return out;
    }
    // one probe per way of writing the default (see DefaultDecl::form)
    for k in 0..6u32 {
        let above = if k % 2 == 0 { 1u128 << n } else { (rng.next_u128() | (1u128 << (s - 1))) & mask(s) & !mask(n) };
        let below = rng.next_u128() & mask(n);
        let mut fields = vec![fld("lo", Kind::Bool, vec![(0, 0)], None)];
        if n >= 3 {
            let w = rng.range(1, (n - 1).min(7) as u64) as u32;
            fields.push(fld("top", Kind::Arb, vec![(n - w, n - 1)], None));
        }
        out.push(Layout {
            id: first_id + k,
            bits: n,
            default: Some(DefaultDecl { value: Hex(above | below), form: k as u8 }),
            fields,
            class: "D:default-has-bits-above-N".into(),
            debug: false,
        });
    }
    out
}

#[cfg(test)]
mod tests {
    use super::*;

    pub fn check_rule_valid(l: &Layout) {
        assert!(l.bits >= 1 && l.bits <= 128);
        assert!(!l.fields.is_empty());
        for f in &l.fields {
            let w = f.width();
            assert!(w >= 1 && w <= l.bits, "{:?}", f);
            assert!(f.top_bit() < l.bits, "{:?} in {}", f, l.bits);
            // ranges of one element are pairwise disjoint
            let mut m = 0u128;
            for &(lo, hi) in &f.ranges {
                assert!(lo <= hi);
                let r = mask(hi - lo + 1) << lo;
                assert_eq!(m & r, 0);
                m |= r;
            }
            match &f.kind {
                Kind::Bool => assert!(w == 1 && f.ranges.len() == 1),
                Kind::Arb => assert!(!is_native(w) && w <= 127),
                Kind::Native | Kind::Signed => assert!(is_native(w)),
                Kind::EnumExh => assert!(w <= 8),
                Kind::EnumOpt { discs } => {
                    assert!(w <= 64);
                    assert!(!discs.is_empty());
                    assert!((discs.len() as u128) < (mask(w) + 1));
                    for d in discs {
                        assert!(d.0 <= mask(w));
                    }
                    let mut s: Vec<_> = discs.clone();
                    s.sort();
                    s.dedup();
                    assert_eq!(s.len(), discs.len());
                }
                Kind::Nested => {}
            }
            if let Some(a) = f.array {
                assert!(a.count >= 2);
                if f.ranges.len() == 1 {
                    assert!(a.stride >= w);
                    if !a.explicit {
                        assert_eq!(a.stride, w);
                    }
                } else {
                    assert!(a.explicit);
                }
            }
        }
    }

    #[test]
    fn generated_layouts_follow_the_rules() {
        for seed in 0..3000u64 {
            let mut r = Rng::new(seed);
            let l = gen_layout(&mut r, seed as u32, GenOpts { arb_only: seed % 2 == 0 });
            check_rule_valid(&l);
            if seed % 2 == 0 {
                assert!(l.is_arb_base());
            }
            // determinism
            let mut r2 = Rng::new(seed);
            assert_eq!(l, gen_layout(&mut r2, seed as u32, GenOpts { arb_only: seed % 2 == 0 }));
            // JSON round trip
            let s = serde_json::to_string(&l).unwrap();
            let back: Layout = serde_json::from_str(&s).unwrap();
            assert_eq!(l, back);
        }
    }

    #[test]
    fn probes_address_hidden_bits() {
        for n in 1..=127u32 {
            if is_native(n) {
                continue;
            }
            let mut r = Rng::new(n as u64);
            let ps = gen_probes(&mut r, n, 0);
            assert!(ps.len() >= 5, "n={n} got {}", ps.len());
            for p in &ps {
                assert!(p.addresses_above_base(), "{}", p.summary());
                for f in &p.fields {
                    assert!(f.top_bit() < p.storage(), "{}", p.summary());
                    let w = f.width();
                    match f.kind {
                        Kind::Arb => assert!(!is_native(w)),
                        Kind::Native | Kind::Signed => assert!(is_native(w)),
                        _ => {}
                    }
                }
            }
        }
    }
}

#[cfg(test)]
mod variant_order_tests {
    use super::*;
    #[test]
    fn exhaustive_variant_orders_are_permutations() {
        for w in 1..=8u32 {
            for rot in 0..256u32 {
                let f = Field {
                    name: "e".into(),
                    kind: Kind::EnumExh,
                    ranges: vec![(0, w - 1)],
                    array: None,
                    access: Access::RW,
                    qualified: false,
                    type_width: None,
                    attr_order: 0,
                    variant_rot: rot,
                    doc: 0,
                    share_with: None,
                };
                let mut v = f.exhaustive_variants();
                assert_eq!(v.len(), 1 << w);
                v.sort();
                v.dedup();
                assert_eq!(v.len(), 1 << w, "w={w} rot={rot}");
            }
        }
    }
}
