//! Executors and oracles.
//!
//! C12: every step of a history is applied to the real generated type and to the reference
//!      register; after every step every slot must agree with the register through raw_value()
//!      and through every getter. Interleaved-writer cases additionally compare the final raw
//!      values of two schedules without consulting the register.
//! C11: every step is applied to a primary and to a replica lineage; the injected fault replaces
//!      the replica by new_with_raw_value(raw_value()); the two must stay indistinguishable.

use crate::emit::builder_args;
use crate::layout::{Hex, Kind, Layout};
use crate::model;
use crate::ops::{Case, Op, Shape};
use crate::prng::mask;
use crate::reg::*;
use serde::{Deserialize, Serialize};
use std::cell::RefCell;
use std::panic::{catch_unwind, AssertUnwindSafe};

thread_local! {
    static LAST_PANIC: RefCell<String> = RefCell::new(String::new());
}

/// Install a silent panic hook that remembers the message (once per process).
pub fn install_panic_hook() {
    std::panic::set_hook(Box::new(|info| {
        let msg = if let Some(s) = info.payload().downcast_ref::<&str>() {
            s.to_string()
        } else if let Some(s) = info.payload().downcast_ref::<String>() {
            s.clone()
        } else {
            "<non-string panic payload>".to_string()
        };
        let loc = info.location().map(|l| format!(" at {}:{}", l.file(), l.line())).unwrap_or_default();
        LAST_PANIC.with(|p| *p.borrow_mut() = format!("{msg}{loc}"));
    }));
}

fn last_panic() -> String {
    LAST_PANIC.with(|p| p.borrow().clone())
}

/// Run `f`, converting a panic into Err(message).
fn guarded<T>(f: impl FnOnce() -> T) -> Result<T, String> {
    match catch_unwind(AssertUnwindSafe(f)) {
        Ok(v) => Ok(v),
        Err(_) => Err(last_panic()),
    }
}

#[derive(Clone, Debug, PartialEq, Eq, Serialize, Deserialize)]
pub struct Violation {
    pub class: String,
    /// index into the executed operation list (for Sched: into schedule `which`)
    pub step: usize,
    pub slot: usize,
    pub field: Option<usize>,
    pub idx: Option<u32>,
    pub observed: Hex,
    pub expected: Hex,
    pub detail: String,
}

impl Violation {
    /// What must recur for a shrunk or replayed case to count as "the same violation".
    pub fn signature(&self) -> String {
        match self.field {
            Some(f) => format!("{} field={}", self.class, f),
            None => format!("{} field=-", self.class),
        }
    }
}

pub const N_PROBES: usize = 20;
pub const PROBE_NAMES: [&str; N_PROBES] = [
    "write_over_nonzero_old_value",
    "write_with_all_other_bits_zero",
    "write_with_all_other_bits_one",
    "negative_signed_write_below_other_bits",
    "write_to_top_bit_of_base",
    "full_width_field_write",
    "array_first_element_write",
    "array_last_element_write",
    "array_middle_element_write",
    "stride_gap_bit_adjacent_to_write",
    "noncontiguous_3plus_ranges_not_ascending_write",
    "interleaved_array_elements_write",
    "write_via_A_then_read_via_overlapping_B",
    "same_cell_rewritten_immediately",
    "with_into_other_slot_then_write_on_stale_source",
    "restart_right_after_write_to_highest_field",
    "restart_of_forked_replica",
    "builder_on_arbitrary_int_base",
    "restart_from_primary",
    "write_changed_state",
];

#[derive(Clone, Debug, Default)]
pub struct RunStats {
    pub digest: u64,
    pub steps: u64,
    pub getter_comparisons: u64,
    pub raw_comparisons: u64,
    pub state_changing_writes: u64,
    pub restarts: u64,
    pub restarts_after_change: u64,
    pub forks_by_with: u64,
    pub copies: u64,
    pub sets: u64,
    pub withs: u64,
    pub builds: u64,
    pub two_sided_panics: u64,
    pub oob_index_writes: u64,
    pub operator_ops_attempted: u64,
    pub operator_ops_supported: u64,
    pub oob_writes_returned_normally: u64,
    /// new_with_raw_value(r).raw_value() != r seen at an Init (C06's business): counted, and the
    /// history goes on from the value the object reports ("starting from any value")
    pub setup_anomalies: u64,
    pub setup_anomaly_example: Option<String>,
    pub probes: [u64; N_PROBES],
    /// (state after step) values visited, for the distinct-state measure
    pub states: Vec<u128>,
}

pub enum Outcome {
    Pass(RunStats),
    /// (no longer produced: a setup anomaly is counted in RunStats and the run continues)
    SetupAnomaly(String),
    /// the operation list is not executable (uninitialised slot, bad index): only arises while
    /// shrinking
    Invalid,
    Violation(Violation, RunStats),
    /// a panic that originates in the harness glue
    Harness(String),
}

#[inline]
fn fnv(d: &mut u64, x: u64) {
    for b in x.to_le_bytes() {
        *d ^= b as u64;
        *d = d.wrapping_mul(0x0000_0100_0000_01B3);
    }
}
fn fnv128(d: &mut u64, x: u128) {
    fnv(d, x as u64);
    fnv(d, (x >> 64) as u64);
}

fn digest_op(d: &mut u64, op: &Op) {
    match op {
        Op::Init { slot, raw } => {
            fnv(d, 1);
            fnv(d, *slot as u64);
            fnv128(d, raw.0)
        }
        Op::InitSpecial { slot, which } => {
            fnv(d, 2);
            fnv(d, *slot as u64);
            fnv(d, *which as u64)
        }
        Op::Set { slot, f, i, v } => {
            fnv(d, 3);
            fnv(d, *slot as u64);
            fnv(d, *f as u64);
            fnv(d, *i as u64);
            fnv128(d, v.0)
        }
        Op::With { src, dst, f, i, v } => {
            fnv(d, 4);
            fnv(d, *src as u64);
            fnv(d, *dst as u64);
            fnv(d, *f as u64);
            fnv(d, *i as u64);
            fnv128(d, v.0)
        }
        Op::Copy { src, dst } => {
            fnv(d, 5);
            fnv(d, *src as u64);
            fnv(d, *dst as u64)
        }
        Op::Read { slot, f, i } => {
            fnv(d, 6);
            fnv(d, *slot as u64);
            fnv(d, *f as u64);
            fnv(d, *i as u64)
        }
        Op::Raw { slot } => {
            fnv(d, 7);
            fnv(d, *slot as u64)
        }
        Op::Restart { slot, from_primary } => {
            fnv(d, 8);
            fnv(d, *slot as u64);
            fnv(d, *from_primary as u64)
        }
        Op::Build { dst, args } => {
            fnv(d, 9);
            fnv(d, *dst as u64);
            for a in args {
                fnv128(d, a.0);
            }
        }
        Op::Operator { dst, a, b, op } => {
            fnv(d, 10);
            fnv(d, *dst as u64);
            fnv(d, *a as u64);
            fnv(d, *b as u64);
            fnv(d, *op as u64);
        }
    }
}

fn is_harness(msg: &str) -> bool {
    msg.contains("HARNESS:")
}

fn valid_cell(l: &Layout, f: usize, i: u32, write: bool) -> bool {
    match l.fields.get(f) {
        None => false,
        Some(fd) => {
            i < fd.count()
                && if write { fd.access.writable() } else { fd.access.readable() }
        }
    }
}

/// C11 histories may also address an array element at or beyond `count`: C11 quantifies over
/// *any* sequence of operations, and an out-of-range write that returns normally instead of
/// panicking is an operation like any other (it must not create state that raw_value() does not
/// carry). C12 histories never do this: what such a call does is C03's statement.
const OOB_SLACK: u32 = 16;
fn valid_cell_twin(l: &Layout, f: usize, i: u32) -> bool {
    match l.fields.get(f) {
        None => false,
        Some(fd) => fd.access.writable() && (i < fd.count() || (fd.array.is_some() && i < fd.count() + OOB_SLACK)),
    }
}

fn expected_tag(fd: &crate::layout::Field, bits: u128) -> u8 {
    if fd.claims_exhaustive {
        return TAG_PLAIN;
    }
    match fd.legal_values() {
        Some(vs) => {
            if vs.contains(&bits) {
                TAG_OK
            } else {
                TAG_ERR
            }
        }
        None => TAG_PLAIN,
    }
}

fn valid_value(l: &Layout, f: usize, v: u128) -> bool {
    let fd = &l.fields[f];
    match fd.legal_values() {
        // (class-E probes declare discriminants that do not fit the field: still "legal" to write)
        Some(vs) => vs.contains(&v),
        None => v <= mask(fd.value_width()),
    }
}

// ------------------------------------------------------------------------------------------------
// Reach probes for writes (shared by C11 and C12 executors)
// ------------------------------------------------------------------------------------------------

fn probe_write(st: &mut RunStats, l: &Layout, before: u128, f: usize, i: u32, v: u128, prev_write: Option<(usize, u32)>) {
    let fd = &l.fields[f];
    let m = fd.bitmask(i);
    let all = mask(l.bits);
    let old = model::read(before, fd, i);
    if old != 0 {
        st.probes[0] += 1;
    }
    if before & !m & all == 0 && (all & !m) != 0 {
        st.probes[1] += 1;
    }
    if (before | m) & all == all && (all & !m) != 0 {
        st.probes[2] += 1;
    }
    if fd.kind == crate::layout::Kind::Signed && (v >> (fd.width() - 1)) & 1 == 1 {
        let top = fd.positions(i).into_iter().max().unwrap();
        if top + 1 < l.bits {
            st.probes[3] += 1;
        }
    }
    if m & (1u128 << (l.bits - 1)) != 0 {
        st.probes[4] += 1;
    }
    if fd.width() == l.bits {
        st.probes[5] += 1;
    }
    if let Some(a) = fd.array {
        if i == 0 {
            st.probes[6] += 1;
        } else if i == a.count - 1 {
            st.probes[7] += 1;
        } else {
            st.probes[8] += 1;
        }
        if fd.ranges.len() == 1 && a.stride > fd.width() {
            st.probes[9] += 1;
        }
        if fd.ranges.len() > 1 {
            // interleaved: some bit of another element lies between this element's lowest and highest bit
            let ps = fd.positions(i);
            let (lo, hi) = (*ps.iter().min().unwrap(), *ps.iter().max().unwrap());
            let others = fd.bitmask_all() & !m;
            let span = if hi >= 127 { u128::MAX } else { (1u128 << (hi + 1)) - 1 } & !((1u128 << lo) - 1);
            if others & span != 0 {
                st.probes[11] += 1;
            }
        }
    }
    if fd.ranges.len() >= 3 {
        let asc = fd.ranges.windows(2).all(|w| w[0].0 < w[1].0);
        if !asc {
            st.probes[10] += 1;
        }
    }
    if prev_write == Some((f, i)) {
        st.probes[13] += 1;
    }
}

// ------------------------------------------------------------------------------------------------
// C12: refinement against the reference register
// ------------------------------------------------------------------------------------------------

/// Development switch (never set by the registered commands): SIM_NO_MODEL=1 turns the
/// refinement oracle off so that the model-free schedule comparison can be shown to have power
/// on its own (DESIGN.md section 13).
fn model_oracle_off() -> bool {
    static OFF: std::sync::OnceLock<bool> = std::sync::OnceLock::new();
    *OFF.get_or_init(|| std::env::var("SIM_NO_MODEL").map_or(false, |v| v == "1"))
}

struct Ctx12<'a> {
    l: &'a Layout,
    e: &'a Entry,
    slots: Vec<Option<Box<dyn Reg>>>,
    model: Vec<u128>,
    /// per slot and bit: the step that last wrote it according to the reference register
    /// (usize::MAX = still the initial value); diagnostics only
    prov: Vec<Vec<usize>>,
    st: RunStats,
}

fn viol(class: &str, step: usize, slot: usize, field: Option<usize>, idx: Option<u32>, observed: u128, expected: u128, detail: String) -> Violation {
    Violation { class: class.into(), step, slot, field, idx, observed: Hex(observed), expected: Hex(expected), detail }
}

impl<'a> Ctx12<'a> {
    /// compare every slot with the register: raw value, then every readable field element
    fn check_all(&mut self, step: usize, op: &Op) -> Result<(), Violation> {
        if model_oracle_off() {
            return Ok(());
        }
        let (dst_slot, wfield, widx) = match op {
            Op::Set { slot, f, i, .. } => (Some(*slot), Some(*f), Some(*i)),
            Op::With { dst, f, i, .. } => (Some(*dst), Some(*f), Some(*i)),
            Op::Copy { dst, .. } => (Some(*dst), None, None),
            Op::Init { slot, .. } | Op::InitSpecial { slot, .. } => (Some(*slot), None, None),
            _ => (None, None, None),
        };
        for s in 0..self.slots.len() {
            let Some(obj) = self.slots[s].as_ref() else { continue };
            let want = self.model[s];
            let got = obj.raw();
            self.st.raw_comparisons += 1;
            if got != want {
                let diff = got ^ want;
                let bit = diff.trailing_zeros();
                let class = if Some(s) == dst_slot {
                    "raw-mismatch"
                } else if matches!(op, Op::With { src, .. } if *src == s) {
                    "receiver-modified"
                } else {
                    "bystander-modified"
                };
                let inside = match (wfield, widx) {
                    (Some(f), Some(i)) => {
                        if self.l.fields[f].bitmask(i) & (1u128 << bit) != 0 {
                            "inside the written element"
                        } else {
                            "outside the written element"
                        }
                    }
                    _ => "n/a",
                };
                return Err(viol(
                    class,
                    step,
                    s,
                    wfield,
                    widx,
                    got,
                    want,
                    format!(
                        "raw_value() differs from the reference register; lowest differing bit {bit} ({inside}); according to the register that bit {}",
                        match self.prov[s].get(bit as usize) {
                            Some(&usize::MAX) | None => "still has its initial value".to_string(),
                            Some(&k) => format!("was last supplied by step {k}"),
                        }
                    ),
                ));
            }
            for (j, fd) in self.l.fields.iter().enumerate() {
                if !fd.access.readable() {
                    continue;
                }
                for i in 0..fd.count() {
                    let (bits, tag) = obj.read(j, i as usize);
                    let exp = model::read(want, fd, i);
                    // a nested-bitfield getter hands the bits to Inner::new_with_raw_value(); what
                    // can be observed of the result is that object's own raw_value()
                    let exp = if fd.kind == Kind::Nested && fd.type_width.is_none() { obj.supplied(j, exp) } else { exp };
                    self.st.getter_comparisons += 1;
                    if bits != exp {
                        return Err(viol(
                            "getter-mismatch",
                            step,
                            s,
                            Some(j),
                            Some(i),
                            bits,
                            exp,
                            format!("getter {}({}) disagrees with the reference register (raw_value() agrees: {:#x})", fd.name, i, want),
                        ));
                    }
                    // an Option<E> getter observes the state as Ok(variant) exactly when the bits
                    // are a declared discriminant, and as Err(bits) otherwise
                    let exp_tag = expected_tag(fd, exp);
                    if tag != exp_tag {
                        return Err(viol(
                            "getter-mismatch",
                            step,
                            s,
                            Some(j),
                            Some(i),
                            tag as u128,
                            exp_tag as u128,
                            format!(
                                "getter {}({}) reports the bits {:#x} as {} but they {} a declared discriminant (observed/expected are the tags: 1 = Ok, 2 = Err)",
                                fd.name,
                                i,
                                exp,
                                if tag == TAG_OK { "Ok(variant)" } else { "Err(raw)" },
                                if exp_tag == TAG_OK { "are" } else { "are not" }
                            ),
                        ));
                    }
                }
            }
        }
        Ok(())
    }

    fn step(&mut self, step: usize, op: &Op, prev_write: &mut Option<(usize, u32)>, stale: &mut Vec<Option<usize>>) -> Result<Option<String>, Violation> {
        // returns Ok(Some(reason)) for setup anomaly / invalid
        let l = self.l;
        match op {
            Op::Init { slot, raw } => {
                if *slot >= self.slots.len() || raw.0 > mask(l.bits) {
                    return Ok(Some("invalid".into()));
                }
                let obj = (self.e.make)(raw.0);
                let r = obj.raw();
                if r != raw.0 {
                    self.st.setup_anomalies += 1;
                    if self.st.setup_anomaly_example.is_none() {
                        self.st.setup_anomaly_example = Some(format!("setup-anomaly: new_with_raw_value({:#x}).raw_value() = {:#x}", raw.0, r));
                    }
                }
                self.model[*slot] = r;
                self.prov[*slot] = vec![usize::MAX; 128];
                self.slots[*slot] = Some(obj);
            }
            Op::InitSpecial { slot, which } => {
                if *slot >= self.slots.len() {
                    return Ok(Some("invalid".into()));
                }
                let Some(obj) = (self.e.special)(*which) else { return Ok(Some("invalid".into())) };
                self.model[*slot] = obj.raw();
                self.prov[*slot] = vec![usize::MAX; 128];
                self.slots[*slot] = Some(obj);
            }
            Op::Set { slot, f, i, v } => {
                if *slot >= self.slots.len() || self.slots[*slot].is_none() || !valid_cell(l, *f, *i, true) || !valid_value(l, *f, v.0) {
                    return Ok(Some("invalid".into()));
                }
                let before = self.model[*slot];
                probe_write(&mut self.st, l, before, *f, *i, v.0, *prev_write);
                if stale[*slot].is_some() {
                    self.st.probes[14] += 1;
                    stale[*slot] = None;
                }
                let supplied = self.slots[*slot].as_ref().unwrap().supplied(*f, v.0);
                self.slots[*slot].as_mut().unwrap().set(*f, *i as usize, v.0);
                let mut after = model::write(before, &l.fields[*f], *i, supplied);
                if l.fields[*f].names_a_bit_twice() {
                    // the bits of this element are whatever the real setter made of them; every
                    // other bit must be untouched
                    let m = l.fields[*f].bitmask(*i);
                    let real = self.slots[*slot].as_ref().unwrap().raw();
                    after = (before & !m) | (real & m);
                }
                if after != before {
                    self.st.state_changing_writes += 1;
                    self.st.probes[19] += 1;
                }
                self.model[*slot] = after;
                for p in l.fields[*f].positions(*i) {
                    if (p as usize) < 128 {
                        self.prov[*slot][p as usize] = step;
                    }
                }
                self.st.sets += 1;
                *prev_write = Some((*f, *i));
            }
            Op::With { src, dst, f, i, v } => {
                if *src >= self.slots.len() || *dst >= self.slots.len() || self.slots[*src].is_none() || !valid_cell(l, *f, *i, true) || !valid_value(l, *f, v.0) {
                    return Ok(Some("invalid".into()));
                }
                let before = self.model[*src];
                probe_write(&mut self.st, l, before, *f, *i, v.0, *prev_write);
                if stale[*src].is_some() {
                    self.st.probes[14] += 1;
                    stale[*src] = None;
                }
                let supplied = self.slots[*src].as_ref().unwrap().supplied(*f, v.0);
                let new = self.slots[*src].as_ref().unwrap().with(*f, *i as usize, v.0);
                // "the receiver itself is unchanged"
                let r = self.slots[*src].as_ref().unwrap().raw();
                if r != before && !model_oracle_off() {
                    return Err(viol("receiver-modified", step, *src, Some(*f), Some(*i), r, before, "with_ changed its receiver".into()));
                }
                let mut after = model::write(before, &l.fields[*f], *i, supplied);
                if l.fields[*f].names_a_bit_twice() {
                    let m = l.fields[*f].bitmask(*i);
                    let real = new.raw();
                    after = (before & !m) | (real & m);
                }
                if after != before {
                    self.st.state_changing_writes += 1;
                    self.st.probes[19] += 1;
                }
                self.model[*dst] = after;
                if src != dst {
                    self.prov[*dst] = self.prov[*src].clone();
                }
                for p in l.fields[*f].positions(*i) {
                    if (p as usize) < 128 {
                        self.prov[*dst][p as usize] = step;
                    }
                }
                self.slots[*dst] = Some(new);
                self.st.withs += 1;
                if src != dst {
                    self.st.forks_by_with += 1;
                    stale[*src] = Some(*dst);
                }
                *prev_write = Some((*f, *i));
            }
            Op::Copy { src, dst } => {
                if *src >= self.slots.len() || *dst >= self.slots.len() || self.slots[*src].is_none() {
                    return Ok(Some("invalid".into()));
                }
                let c = self.slots[*src].as_ref().unwrap().clone_box();
                self.model[*dst] = self.model[*src];
                self.prov[*dst] = self.prov[*src].clone();
                self.slots[*dst] = Some(c);
                self.st.copies += 1;
            }
            Op::Read { slot, f, i } => {
                if *slot >= self.slots.len() || self.slots[*slot].is_none() || !valid_cell(l, *f, *i, false) {
                    return Ok(Some("invalid".into()));
                }
                let (bits, tag) = self.slots[*slot].as_ref().unwrap().read(*f, *i as usize);
                let exp = model::read(self.model[*slot], &l.fields[*f], *i);
                let exp = if l.fields[*f].kind == Kind::Nested && l.fields[*f].type_width.is_none() { self.slots[*slot].as_ref().unwrap().supplied(*f, exp) } else { exp };
                if bits == exp && tag != expected_tag(&l.fields[*f], exp) && !model_oracle_off() {
                    return Err(viol("getter-mismatch", step, *slot, Some(*f), Some(*i), tag as u128, expected_tag(&l.fields[*f], exp) as u128, "explicit read: wrong Ok/Err for these bits".into()));
                }
                self.st.getter_comparisons += 1;
                // probe: read through a field that overlaps the previously written one
                if let Some((pf, pi)) = *prev_write {
                    if pf != *f && l.fields[pf].bitmask(pi) & l.fields[*f].bitmask(*i) != 0 {
                        self.st.probes[12] += 1;
                    }
                }
                if bits != exp && !model_oracle_off() {
                    return Err(viol("getter-mismatch", step, *slot, Some(*f), Some(*i), bits, exp, "explicit read disagrees with the reference register".into()));
                }
            }
            Op::Raw { slot } => {
                if *slot >= self.slots.len() || self.slots[*slot].is_none() {
                    return Ok(Some("invalid".into()));
                }
                let r = self.slots[*slot].as_ref().unwrap().raw();
                self.st.raw_comparisons += 1;
                if r != self.model[*slot] && !model_oracle_off() {
                    return Err(viol("raw-mismatch", step, *slot, None, None, r, self.model[*slot], "explicit raw_value() disagrees with the reference register".into()));
                }
            }
            Op::Restart { .. } | Op::Build { .. } | Op::Operator { .. } => return Ok(Some("invalid".into())),
        }
        Ok(None)
    }
}


/// Execute an operation list against the real type and the reference register.
fn run_c12_ops(l: &Layout, e: &Entry, nslots: usize, ops: &[Op], digest_seed: u64) -> (Outcome, Option<u128>) {
    let mut cx = Ctx12 { l, e, slots: (0..nslots).map(|_| None).collect(), model: vec![0; nslots], prov: vec![vec![usize::MAX; 128]; nslots], st: RunStats::default() };
    let mut d = 0xcbf2_9ce4_8422_2325u64 ^ digest_seed;
    fnv(&mut d, l.id as u64);
    let mut prev_write: Option<(usize, u32)> = None;
    let mut stale: Vec<Option<usize>> = vec![None; nslots];
    for (k, op) in ops.iter().enumerate() {
        digest_op(&mut d, op);
        let r = guarded(|| {
            let r = cx.step(k, op, &mut prev_write, &mut stale);
            match r {
                Ok(None) => cx.check_all(k, op).map(|_| None),
                other => other,
            }
        });
        cx.st.steps += 1;
        match r {
            Err(msg) => {
                if is_harness(&msg) {
                    return (Outcome::Harness(msg), None);
                }
                let (slot, field, idx) = match op {
                    Op::Set { slot, f, i, .. } => (*slot, Some(*f), Some(*i)),
                    Op::With { src, f, i, .. } => (*src, Some(*f), Some(*i)),
                    Op::Read { slot, f, i } => (*slot, Some(*f), Some(*i)),
                    Op::Raw { slot } | Op::Init { slot, .. } | Op::InitSpecial { slot, .. } => (*slot, None, None),
                    Op::Copy { dst, .. } => (*dst, None, None),
                    _ => (0, None, None),
                };
                let v = viol("panic", k, slot, field, idx, 0, 0, format!("operation or a following read panicked: {msg}"));
                cx.st.digest = d;
                return (Outcome::Violation(v, cx.st), None);
            }
            Ok(Err(v)) => {
                cx.st.digest = d;
                return (Outcome::Violation(v, cx.st), None);
            }
            Ok(Ok(Some(reason))) => {
                if reason == "invalid" {
                    return (Outcome::Invalid, None);
                }
                return (Outcome::SetupAnomaly(reason), None);
            }
            Ok(Ok(None)) => {}
        }
        for s in 0..nslots {
            if cx.slots[s].is_some() {
                fnv128(&mut d, cx.model[s]);
                if cx.st.states.len() < 64 {
                    cx.st.states.push(cx.model[s]);
                }
            }
        }
    }
    cx.st.digest = d;
    let fin = if cx.slots.first().map_or(false, |s| s.is_some()) { Some(cx.model[0]) } else { None };
    // the final raw value is taken from the real object, not from the register
    let fin_real = cx.slots.first().and_then(|s| s.as_ref()).map(|o| o.raw());
    let _ = fin;
    (Outcome::Pass(cx.st), fin_real)
}

fn merge_stats(a: &mut RunStats, b: &RunStats) {
    a.steps += b.steps;
    a.getter_comparisons += b.getter_comparisons;
    a.raw_comparisons += b.raw_comparisons;
    a.state_changing_writes += b.state_changing_writes;
    a.restarts += b.restarts;
    a.restarts_after_change += b.restarts_after_change;
    a.forks_by_with += b.forks_by_with;
    a.copies += b.copies;
    a.sets += b.sets;
    a.withs += b.withs;
    a.builds += b.builds;
    a.two_sided_panics += b.two_sided_panics;
    a.oob_index_writes += b.oob_index_writes;
    a.operator_ops_attempted += b.operator_ops_attempted;
    a.operator_ops_supported += b.operator_ops_supported;
    a.oob_writes_returned_normally += b.oob_writes_returned_normally;
    a.setup_anomalies += b.setup_anomalies;
    if a.setup_anomaly_example.is_none() {
        a.setup_anomaly_example = b.setup_anomaly_example.clone();
    }
    for i in 0..N_PROBES {
        a.probes[i] += b.probes[i];
    }
    for s in &b.states {
        if a.states.len() < 64 {
            a.states.push(*s);
        }
    }
}

fn run_sched(l: &Layout, e: &Entry, case: &Case) -> Outcome {
    let Some(s) = case.sched.as_ref() else { return Outcome::Invalid };
    let (Some(oa), Some(ob)) = (s.linearise(&s.a), s.linearise(&s.b)) else { return Outcome::Invalid };
    if !matches!(s.init, Op::Init { slot: 0, .. }) {
        return Outcome::Invalid;
    }
    for p in &s.writers {
        for op in p {
            match op {
                Op::Set { slot: 0, .. } | Op::With { src: 0, dst: 0, .. } => {}
                _ => return Outcome::Invalid,
            }
        }
    }
    let (ra, fa) = run_c12_ops(l, e, 1, &oa, 0xA);
    let mut st = match ra {
        Outcome::Pass(st) => st,
        Outcome::Violation(mut v, st) => {
            v.detail = format!("[schedule A] {}", v.detail);
            return Outcome::Violation(v, st);
        }
        other => return other,
    };
    let (rb, fb) = run_c12_ops(l, e, 1, &ob, 0xB);
    match rb {
        Outcome::Pass(sb) => {
            let db = sb.digest;
            merge_stats(&mut st, &sb);
            let mut d = st.digest;
            fnv(&mut d, db);
            st.digest = d;
        }
        Outcome::Violation(mut v, sb) => {
            v.detail = format!("[schedule B] {}", v.detail);
            // steps of schedule B are reported with an offset so that signatures stay distinct
            return Outcome::Violation(v, sb);
        }
        other => return other,
    }
    if s.disjoint {
        // model-free oracle: writers with pairwise disjoint bit sets commute
        let (fa, fb) = (fa.unwrap_or(0), fb.unwrap_or(0));
        if fa != fb {
            let v = viol(
                "schedule-dependent",
                oa.len().saturating_sub(1),
                0,
                None,
                None,
                fa,
                fb,
                "two interleavings of writers over pairwise disjoint bits ended in different raw values (observed = schedule A, expected = schedule B)".into(),
            );
            return Outcome::Violation(v, st);
        }
    }
    Outcome::Pass(st)
}

// ------------------------------------------------------------------------------------------------
// C11: primary / replica twin run with restart injection
// ------------------------------------------------------------------------------------------------

#[derive(Clone, Copy, PartialEq, Eq, Debug)]
enum Obs {
    Val(u128, u8),
    Panicked,
}

fn observe_all(l: &Layout, o: &dyn Reg) -> Vec<Obs> {
    let mut v = Vec::new();
    for (j, fd) in l.fields.iter().enumerate() {
        if !fd.access.readable() {
            continue;
        }
        for i in 0..fd.count() {
            match guarded(|| o.read(j, i as usize)) {
                Ok((b, t)) => v.push(Obs::Val(b, t)),
                Err(_) => v.push(Obs::Panicked),
            }
        }
    }
    v
}

fn obs_cell(l: &Layout, k: usize) -> (usize, u32) {
    let mut n = 0usize;
    for (j, fd) in l.fields.iter().enumerate() {
        if !fd.access.readable() {
            continue;
        }
        let c = fd.count() as usize;
        if k < n + c {
            return (j, (k - n) as u32);
        }
        n += c;
    }
    (usize::MAX, 0)
}

fn run_twin(l: &Layout, e: &Entry, case: &Case) -> Outcome {
    let n = case.nslots;
    let mut p: Vec<Option<Box<dyn Reg>>> = (0..n).map(|_| None).collect();
    let mut q: Vec<Option<Box<dyn Reg>>> = (0..n).map(|_| None).collect();
    // The register below is *not* an oracle here. It only classifies writes (did the state
    // change?) for the reach probes and the non-triviality measure.
    let mut shadow: Vec<u128> = vec![0; n];
    let mut changed_since_restart: Vec<bool> = vec![false; n];
    let mut forked: Vec<bool> = vec![false; n];
    let mut st = RunStats::default();
    let mut d = 0xcbf2_9ce4_8422_2325u64 ^ 0x11;
    fnv(&mut d, l.id as u64);
    let bargs = builder_args(l);
    let mut prev_write: Option<(usize, u32)> = None;
    let top_field = l
        .fields
        .iter()
        .enumerate()
        .filter(|(_, f)| f.access.writable())
        .max_by_key(|(_, f)| f.top_bit())
        .map(|(j, _)| j);
    let mut last_was_top_write_on: Option<usize> = None;

    macro_rules! vio {
        ($class:expr, $k:expr, $slot:expr, $f:expr, $i:expr, $o:expr, $x:expr, $d:expr) => {{
            st.digest = d;
            return Outcome::Violation(viol($class, $k, $slot, $f, $i, $o, $x, $d), st);
        }};
    }

    for (k, op) in case.ops.iter().enumerate() {
        digest_op(&mut d, op);
        st.steps += 1;
        let mut top_write_now: Option<usize> = None;
        match op {
            Op::Init { slot, raw } => {
                if *slot >= n || raw.0 > mask(l.bits) {
                    return Outcome::Invalid;
                }
                let a = guarded(|| (e.make)(raw.0));
                let b = guarded(|| (e.make)(raw.0));
                match (a, b) {
                    (Ok(a), Ok(b)) => {
                        p[*slot] = Some(a);
                        q[*slot] = Some(b);
                        shadow[*slot] = raw.0;
                        changed_since_restart[*slot] = false;
                        forked[*slot] = false;
                    }
                    (Err(m), _) | (_, Err(m)) => {
                        if is_harness(&m) {
                            return Outcome::Harness(m);
                        }
                        return Outcome::SetupAnomaly(format!("new_with_raw_value panicked: {m}"));
                    }
                }
            }
            Op::InitSpecial { slot, which } => {
                if *slot >= n {
                    return Outcome::Invalid;
                }
                let (Some(a), Some(b)) = ((e.special)(*which), (e.special)(*which)) else { return Outcome::Invalid };
                shadow[*slot] = guarded(|| a.raw()).unwrap_or(0);
                p[*slot] = Some(a);
                q[*slot] = Some(b);
                changed_since_restart[*slot] = false;
                forked[*slot] = false;
            }
            Op::Set { slot, f, i, v } => {
                if *slot >= n || p[*slot].is_none() || !valid_cell_twin(l, *f, *i) || !valid_value(l, *f, v.0) {
                    return Outcome::Invalid;
                }
                let oob = *i >= l.fields[*f].count();
                if !oob {
                    probe_write(&mut st, l, shadow[*slot], *f, *i, v.0, prev_write);
                } else {
                    st.oob_index_writes += 1;
                }
                let keep_p = p[*slot].as_ref().unwrap().clone_box();
                let keep_q = q[*slot].as_ref().unwrap().clone_box();
                let a = guarded(|| p[*slot].as_mut().unwrap().set(*f, *i as usize, v.0));
                let b = guarded(|| q[*slot].as_mut().unwrap().set(*f, *i as usize, v.0));
                match (a, b) {
                    (Ok(()), Ok(())) => {
                        // an out-of-range write that did not panic: whatever it did, it is a
                        // state change as far as the bookkeeping below is concerned
                        let after = if oob {
                            st.oob_writes_returned_normally += 1;
                            guarded(|| p[*slot].as_ref().unwrap().raw()).unwrap_or(!shadow[*slot])
                        } else {
                            model::write(shadow[*slot], &l.fields[*f], *i, v.0)
                        };
                        if oob {
                            changed_since_restart[*slot] = true;
                        }
                        if after != shadow[*slot] {
                            st.state_changing_writes += 1;
                            st.probes[19] += 1;
                            changed_since_restart[*slot] = true;
                        }
                        shadow[*slot] = after;
                        st.sets += 1;
                        prev_write = Some((*f, *i));
                        if Some(*f) == top_field {
                            top_write_now = Some(*slot);
                        }
                    }
                    (Err(ma), Err(mb)) => {
                        if is_harness(&ma) || is_harness(&mb) {
                            return Outcome::Harness(ma);
                        }
                        st.two_sided_panics += 1;
                        p[*slot] = Some(keep_p);
                        q[*slot] = Some(keep_q);
                    }
                    (Err(m), Ok(())) => vio!("one-sided-panic", k, *slot, Some(*f), Some(*i), 0, 0, format!("set_ panicked on the primary only: {m}")),
                    (Ok(()), Err(m)) => vio!("one-sided-panic", k, *slot, Some(*f), Some(*i), 0, 0, format!("set_ panicked on the restarted replica only: {m}")),
                }
            }
            Op::With { src, dst, f, i, v } => {
                if *src >= n || *dst >= n || p[*src].is_none() || !valid_cell_twin(l, *f, *i) || !valid_value(l, *f, v.0) {
                    return Outcome::Invalid;
                }
                let oob = *i >= l.fields[*f].count();
                if !oob {
                    probe_write(&mut st, l, shadow[*src], *f, *i, v.0, prev_write);
                } else {
                    st.oob_index_writes += 1;
                }
                let a = guarded(|| p[*src].as_ref().unwrap().with(*f, *i as usize, v.0));
                let b = guarded(|| q[*src].as_ref().unwrap().with(*f, *i as usize, v.0));
                match (a, b) {
                    (Ok(a), Ok(b)) => {
                        let after = if oob {
                            st.oob_writes_returned_normally += 1;
                            guarded(|| a.raw()).unwrap_or(!shadow[*src])
                        } else {
                            model::write(shadow[*src], &l.fields[*f], *i, v.0)
                        };
                        let ch = oob || after != shadow[*src];
                        if ch {
                            st.state_changing_writes += 1;
                            st.probes[19] += 1;
                        }
                        p[*dst] = Some(a);
                        q[*dst] = Some(b);
                        if src != dst {
                            st.forks_by_with += 1;
                            changed_since_restart[*dst] = changed_since_restart[*src] || ch;
                            forked[*dst] = true;
                        } else if ch {
                            changed_since_restart[*dst] = true;
                        }
                        shadow[*dst] = after;
                        st.withs += 1;
                        prev_write = Some((*f, *i));
                        if Some(*f) == top_field {
                            top_write_now = Some(*dst);
                        }
                    }
                    (Err(ma), Err(mb)) => {
                        if is_harness(&ma) || is_harness(&mb) {
                            return Outcome::Harness(ma);
                        }
                        st.two_sided_panics += 1;
                    }
                    (Err(m), Ok(_)) => vio!("one-sided-panic", k, *src, Some(*f), Some(*i), 0, 0, format!("with_ panicked on the primary only: {m}")),
                    (Ok(_), Err(m)) => vio!("one-sided-panic", k, *src, Some(*f), Some(*i), 0, 0, format!("with_ panicked on the restarted replica only: {m}")),
                }
            }
            Op::Copy { src, dst } => {
                if *src >= n || *dst >= n || p[*src].is_none() {
                    return Outcome::Invalid;
                }
                p[*dst] = Some(p[*src].as_ref().unwrap().clone_box());
                q[*dst] = Some(q[*src].as_ref().unwrap().clone_box());
                shadow[*dst] = shadow[*src];
                changed_since_restart[*dst] = changed_since_restart[*src];
                forked[*dst] = true;
                st.copies += 1;
            }
            Op::Read { slot, f, i } => {
                if *slot >= n || p[*slot].is_none() || !valid_cell(l, *f, *i, false) {
                    return Outcome::Invalid;
                }
                // covered by the observation pass below
            }
            Op::Raw { slot } => {
                if *slot >= n || p[*slot].is_none() {
                    return Outcome::Invalid;
                }
            }
            Op::Restart { slot, from_primary } => {
                if *slot >= n || p[*slot].is_none() {
                    return Outcome::Invalid;
                }
                let src: &dyn Reg = if *from_primary { p[*slot].as_ref().unwrap().as_ref() } else { q[*slot].as_ref().unwrap().as_ref() };
                match guarded(|| src.rewrap()) {
                    Ok(nq) => q[*slot] = Some(nq),
                    Err(m) => {
                        if is_harness(&m) {
                            return Outcome::Harness(m);
                        }
                        vio!("raw-panic", k, *slot, None, None, 0, 0, format!("new_with_raw_value(raw_value()) panicked: {m}"))
                    }
                }
                st.restarts += 1;
                if changed_since_restart[*slot] {
                    st.restarts_after_change += 1;
                }
                changed_since_restart[*slot] = false;
                if last_was_top_write_on == Some(*slot) {
                    st.probes[15] += 1;
                }
                if forked[*slot] {
                    st.probes[16] += 1;
                }
                if *from_primary {
                    st.probes[18] += 1;
                }
            }
            Op::Operator { dst, a, b, op } => {
                if *dst >= n || *a >= n || *b >= n || p[*a].is_none() || p[*b].is_none() {
                    return Outcome::Invalid;
                }
                st.operator_ops_attempted += 1;
                let unary = *op == OP_NOT;
                let rp = guarded(|| p[*a].as_ref().unwrap().operator(*op, if unary { None } else { Some(p[*b].as_ref().unwrap().as_ref()) }));
                let rq = guarded(|| q[*a].as_ref().unwrap().operator(*op, if unary { None } else { Some(q[*b].as_ref().unwrap().as_ref()) }));
                match (rp, rq) {
                    // the generated type does not implement this operator: nothing happens
                    (Ok(None), Ok(None)) => {}
                    (Ok(Some(x)), Ok(Some(y))) => {
                        st.operator_ops_supported += 1;
                        shadow[*dst] = guarded(|| x.raw()).unwrap_or(0);
                        p[*dst] = Some(x);
                        q[*dst] = Some(y);
                        changed_since_restart[*dst] = true;
                        forked[*dst] = true;
                        st.state_changing_writes += 1;
                    }
                    (Err(m), Err(_)) => {
                        if is_harness(&m) {
                            return Outcome::Harness(m);
                        }
                        st.two_sided_panics += 1;
                    }
                    (Err(m), _) | (_, Err(m)) => {
                        if is_harness(&m) {
                            return Outcome::Harness(m);
                        }
                        vio!("one-sided-panic", k, *a, None, None, 0, 0, format!("an operator panicked on exactly one of x and its restarted replica: {m}"))
                    }
                    _ => return Outcome::Harness("HARNESS: operator exists on one lineage only".into()),
                }
            }
            Op::Build { dst, args } => {
                let Some(build) = e.build else { return Outcome::Invalid };
                if *dst >= n || args.len() != bargs.len() {
                    return Outcome::Invalid;
                }
                for (a, &(f, _)) in args.iter().zip(bargs.iter()) {
                    if !valid_value(l, f, a.0) {
                        return Outcome::Invalid;
                    }
                }
                let raw_args: Vec<u128> = args.iter().map(|h| h.0).collect();
                let a = guarded(|| build(&raw_args));
                let b = guarded(|| build(&raw_args));
                match (a, b) {
                    (Ok(a), Ok(b)) => {
                        shadow[*dst] = guarded(|| a.raw()).unwrap_or(0);
                        p[*dst] = Some(a);
                        q[*dst] = Some(b);
                        changed_since_restart[*dst] = true;
                        forked[*dst] = false;
                        st.builds += 1;
                        st.state_changing_writes += 1;
                        st.probes[17] += 1;
                    }
                    (Err(ma), _) | (_, Err(ma)) => {
                        if is_harness(&ma) {
                            return Outcome::Harness(ma);
                        }
                        // deterministic function of the arguments: panics on both or neither
                        st.two_sided_panics += 1;
                    }
                }
            }
        }
        last_was_top_write_on = top_write_now;

        // ---- invariants over every slot, after every step ----
        for s in 0..n {
            let (Some(ps), Some(qs)) = (p[s].as_ref(), q[s].as_ref()) else { continue };
            // 1. raw_value() returns normally and is a valid uN
            let rp = match guarded(|| ps.raw()) {
                Ok(r) => r,
                Err(m) => {
                    if is_harness(&m) {
                        return Outcome::Harness(m);
                    }
                    vio!("raw-panic", k, s, None, None, 0, 0, format!("raw_value() panicked on the primary: {m}"))
                }
            };
            let rq = match guarded(|| qs.raw()) {
                Ok(r) => r,
                Err(m) => {
                    if is_harness(&m) {
                        return Outcome::Harness(m);
                    }
                    vio!("raw-panic", k, s, None, None, 0, 0, format!("raw_value() panicked on the replica: {m}"))
                }
            };
            st.raw_comparisons += 2;
            if rp > mask(l.bits) {
                vio!("raw-out-of-range", k, s, None, None, rp, mask(l.bits), "raw_value() of the primary is not a valid uN".into());
            }
            if rq > mask(l.bits) {
                vio!("raw-out-of-range", k, s, None, None, rq, mask(l.bits), "raw_value() of the replica is not a valid uN".into());
            }
            // 2. primary and replica agree on the durable state
            if rp != rq {
                vio!("raw-diverged", k, s, None, None, rp, rq, "raw_value() of primary (observed) and restarted replica (expected) differ".into());
            }
            // 3. every getter: primary vs replica, and primary vs its own re-wrapped raw value
            let rew = match guarded(|| ps.rewrap()) {
                Ok(r) => r,
                Err(m) => {
                    if is_harness(&m) {
                        return Outcome::Harness(m);
                    }
                    vio!("raw-panic", k, s, None, None, 0, 0, format!("new_with_raw_value(raw_value()) panicked: {m}"))
                }
            };
            let op_ = observe_all(l, ps.as_ref());
            let oq = observe_all(l, qs.as_ref());
            let or = observe_all(l, rew.as_ref());
            st.getter_comparisons += 2 * op_.len() as u64;
            for (c, ((a, b), r)) in op_.iter().zip(oq.iter()).zip(or.iter()).enumerate() {
                for (other, who) in [(b, "the restarted replica"), (r, "new_with_raw_value(x.raw_value())")] {
                    if a != other {
                        let (f, i) = obs_cell(l, c);
                        match (a, other) {
                            (Obs::Val(x, tx), Obs::Val(y, ty)) => vio!(
                                "getter-diverged",
                                k,
                                s,
                                Some(f),
                                Some(i),
                                *x,
                                *y,
                                format!("getter {}({}) tells x (observed, tag {}) from {} (expected, tag {}); raw_value() = {:#x} on both", l.fields[f].name, i, tx, who, ty, rp)
                            ),
                            _ => vio!("one-sided-panic", k, s, Some(f), Some(i), 0, 0, format!("getter {}({}) panics on exactly one of x and {}: {}", l.fields[f].name, i, who, last_panic())),
                        }
                    }
                }
            }
            // 4. the derived `==` (struct attributes are passed through by the macro, and the test
            //    suite derives PartialEq on bitfields) must not tell them apart either
            let same_q = guarded(|| ps.same(qs.as_ref()));
            let same_r = guarded(|| ps.same(rew.as_ref()));
            match (same_q, same_r) {
                (Ok(true), Ok(true)) => {}
                (Err(m), _) | (_, Err(m)) => return Outcome::Harness(format!("HARNESS: same() panicked: {m}")),
                (a, _) => {
                    let who = if a == Ok(false) { "the restarted replica" } else { "new_with_raw_value(x.raw_value())" };
                    vio!(
                        "eq-diverged",
                        k,
                        s,
                        None,
                        None,
                        rp,
                        rq,
                        format!("derived == tells x from {who} although raw_value() and every getter agree: state exists that raw_value() does not carry")
                    )
                }
            }
            fnv128(&mut d, rp);
            if st.states.len() < 64 {
                st.states.push(rp);
            }
        }
    }
    st.digest = d;
    Outcome::Pass(st)
}

/// Execute one case of any shape.
pub fn run_case(l: &Layout, e: &Entry, case: &Case) -> Outcome {
    match case.shape {
        Shape::Free => run_c12_ops(l, e, case.nslots, &case.ops, 0xF).0,
        Shape::Sched => run_sched(l, e, case),
        Shape::Twin => {
            if !l.is_arb_base() {
                return Outcome::Invalid;
            }
            run_twin(l, e, case)
        }
    }
}
