//! Minimisation of a failing case. Operations are data, so this needs no recompilation: the
//! candidate is simply executed again against the real type. A candidate is kept only if it
//! fails with the same violation signature (class + field).

use crate::layout::{Hex, Layout};
use crate::ops::{Case, Op, Sched, Shape};
use crate::reg::Entry;
use crate::sim::{run_case, Outcome, Violation};

fn fails_same(l: &Layout, e: &Entry, c: &Case, sig: &str) -> Option<Violation> {
    match run_case(l, e, c) {
        Outcome::Violation(v, _) if v.signature() == sig => Some(v),
        _ => None,
    }
}

fn ddmin_ops(l: &Layout, e: &Entry, case: &mut Case, sig: &str, budget: &mut usize) {
    let mut chunk = (case.ops.len() / 2).max(1);
    loop {
        let mut progress = false;
        let mut start = 0;
        while start < case.ops.len() && *budget > 0 {
            let end = (start + chunk).min(case.ops.len());
            let mut cand = case.clone();
            cand.ops.drain(start..end);
            *budget -= 1;
            if !cand.ops.is_empty() && fails_same(l, e, &cand, sig).is_some() {
                *case = cand;
                progress = true;
            } else {
                start = end;
            }
        }
        if *budget == 0 {
            return;
        }
        if chunk == 1 {
            if !progress {
                return;
            }
        } else {
            chunk = (chunk / 2).max(1);
        }
    }
}

fn simpler_values(v: u128) -> Vec<u128> {
    // strictly simpler only (0 < 1 < one-hot < anything else), so that simplification terminates
    if v == 0 {
        return vec![];
    }
    if v == 1 {
        return vec![0];
    }
    if v.count_ones() == 1 {
        return vec![0, 1];
    }
    let mut c = vec![0u128, 1, 1u128 << v.trailing_zeros(), 1u128 << (127 - v.leading_zeros())];
    c.dedup();
    c
}

fn simplify_ops(l: &Layout, e: &Entry, case: &mut Case, sig: &str, budget: &mut usize) {
    for k in 0..case.ops.len() {
        let mut cands: Vec<Op> = Vec::new();
        match &case.ops[k] {
            Op::With { src, dst, f, i, v } => {
                if src != dst {
                    cands.push(Op::With { src: *src, dst: *src, f: *f, i: *i, v: *v });
                }
                for x in simpler_values(v.0) {
                    cands.push(Op::With { src: *src, dst: *dst, f: *f, i: *i, v: Hex(x) });
                }
            }
            Op::Set { slot, f, i, v } => {
                for x in simpler_values(v.0) {
                    cands.push(Op::Set { slot: *slot, f: *f, i: *i, v: Hex(x) });
                }
            }
            Op::Init { slot, raw } => {
                for x in simpler_values(raw.0) {
                    cands.push(Op::Init { slot: *slot, raw: Hex(x) });
                }
            }
            Op::InitSpecial { slot, .. } => cands.push(Op::Init { slot: *slot, raw: Hex(0) }),
            Op::Restart { slot, from_primary: true } => cands.push(Op::Restart { slot: *slot, from_primary: false }),
            Op::Build { dst, args } => {
                for a in 0..args.len() {
                    for x in simpler_values(args[a].0) {
                        let mut na = args.clone();
                        na[a] = Hex(x);
                        cands.push(Op::Build { dst: *dst, args: na });
                    }
                }
            }
            _ => {}
        }
        for c in cands {
            if *budget == 0 {
                return;
            }
            *budget -= 1;
            let mut cand = case.clone();
            cand.ops[k] = c;
            if fails_same(l, e, &cand, sig).is_some() {
                *case = cand;
                break;
            }
        }
    }
}

fn remap_slot(op: &mut Op, from: usize, to: usize) {
    let m = |s: &mut usize| {
        if *s == from {
            *s = to
        }
    };
    match op {
        Op::Init { slot, .. } | Op::InitSpecial { slot, .. } | Op::Set { slot, .. } | Op::Read { slot, .. } | Op::Raw { slot } | Op::Restart { slot, .. } => m(slot),
        Op::With { src, dst, .. } | Op::Copy { src, dst } => {
            m(src);
            m(dst)
        }
        Op::Build { dst, .. } => m(dst),
        Op::Operator { dst, a, b, .. } => {
            m(dst);
            m(a);
            m(b)
        }
    }
}

fn used_slots(ops: &[Op]) -> Vec<usize> {
    let mut u = Vec::new();
    for op in ops {
        let mut o = op.clone();
        // collect by probing remap on a clone
        match &mut o {
            Op::Init { slot, .. } | Op::InitSpecial { slot, .. } | Op::Set { slot, .. } | Op::Read { slot, .. } | Op::Raw { slot } | Op::Restart { slot, .. } => u.push(*slot),
            Op::With { src, dst, .. } | Op::Copy { src, dst } => {
                u.push(*src);
                u.push(*dst)
            }
            Op::Build { dst, .. } => u.push(*dst),
            Op::Operator { dst, a, b, .. } => {
                u.push(*dst);
                u.push(*a);
                u.push(*b)
            }
        }
    }
    u.sort();
    u.dedup();
    u
}

fn compact_slots(l: &Layout, e: &Entry, case: &mut Case, sig: &str) {
    let used = used_slots(&case.ops);
    let mut cand = case.clone();
    for (new, &old) in used.iter().enumerate() {
        if new != old {
            for op in cand.ops.iter_mut() {
                remap_slot(op, old, new);
            }
        }
    }
    cand.nslots = used.len().max(1);
    if fails_same(l, e, &cand, sig).is_some() {
        *case = cand;
    }
}

fn shrink_sched(l: &Layout, e: &Entry, case: &mut Case, sig: &str, budget: &mut usize) {
    // remove single operations from writer programs, together with the matching schedule entries
    loop {
        let mut progress = false;
        let s = case.sched.clone().unwrap();
        'outer: for w in 0..s.writers.len() {
            for k in 0..s.writers[w].len() {
                if *budget == 0 {
                    return;
                }
                *budget -= 1;
                let mut ns: Sched = s.clone();
                ns.writers[w].remove(k);
                let strip = |order: &Vec<u8>| -> Vec<u8> {
                    let mut seen = 0usize;
                    let mut out = Vec::new();
                    for &x in order {
                        if x as usize == w {
                            if seen == k {
                                seen += 1;
                                continue;
                            }
                            seen += 1;
                        }
                        out.push(x);
                    }
                    out
                };
                ns.a = strip(&s.a);
                ns.b = strip(&s.b);
                let mut cand = case.clone();
                cand.sched = Some(ns);
                if fails_same(l, e, &cand, sig).is_some() {
                    *case = cand;
                    progress = true;
                    break 'outer;
                }
            }
        }
        if !progress {
            break;
        }
    }
    // simplify values
    let s = case.sched.clone().unwrap();
    for w in 0..s.writers.len() {
        for k in 0..s.writers[w].len() {
            let cands: Vec<Op> = match &s.writers[w][k] {
                Op::Set { slot, f, i, v } => simpler_values(v.0).into_iter().map(|x| Op::Set { slot: *slot, f: *f, i: *i, v: Hex(x) }).collect(),
                Op::With { src, dst, f, i, v } => simpler_values(v.0).into_iter().map(|x| Op::With { src: *src, dst: *dst, f: *f, i: *i, v: Hex(x) }).collect(),
                _ => vec![],
            };
            for c in cands {
                if *budget == 0 {
                    return;
                }
                *budget -= 1;
                let mut cand = case.clone();
                cand.sched.as_mut().unwrap().writers[w][k] = c;
                if fails_same(l, e, &cand, sig).is_some() {
                    *case = cand;
                    break;
                }
            }
        }
    }
    if let Op::Init { raw, .. } = &s.init {
        for x in simpler_values(raw.0) {
            let mut cand = case.clone();
            cand.sched.as_mut().unwrap().init = Op::Init { slot: 0, raw: Hex(x) };
            if fails_same(l, e, &cand, sig).is_some() {
                *case = cand;
                break;
            }
        }
    }
}

/// Returns the minimised case and the violation it produces.
pub fn shrink(l: &Layout, e: &Entry, case: &Case, first: &Violation) -> (Case, Violation) {
    let sig = first.signature();
    let mut cur = case.clone();
    let mut budget = 4000usize;

    if cur.shape == Shape::Sched {
        if first.class != "schedule-dependent" {
            // a refinement failure inside one schedule: continue with that schedule as a free history
            let s = cur.sched.as_ref().unwrap();
            let which = if first.detail.starts_with("[schedule B]") { &s.b } else { &s.a };
            if let Some(ops) = s.linearise(which) {
                let cand = Case { shape: Shape::Free, nslots: 1, ops, sched: None };
                if fails_same(l, e, &cand, &sig).is_some() {
                    cur = cand;
                }
            }
        }
        if cur.shape == Shape::Sched {
            shrink_sched(l, e, &mut cur, &sig, &mut budget);
            let v = fails_same(l, e, &cur, &sig).unwrap_or_else(|| first.clone());
            return (cur, v);
        }
    }

    // 1. nothing after the failing step matters
    if let Some(v) = fails_same(l, e, &cur, &sig) {
        if v.step + 1 < cur.ops.len() {
            let mut cand = cur.clone();
            cand.ops.truncate(v.step + 1);
            if fails_same(l, e, &cand, &sig).is_some() {
                cur = cand;
            }
        }
    }
    // 2. delta debugging over operations, 3. simplification of what remains; repeat to a fixpoint
    for _ in 0..4 {
        let before = cur.clone();
        ddmin_ops(l, e, &mut cur, &sig, &mut budget);
        simplify_ops(l, e, &mut cur, &sig, &mut budget);
        if cur == before || budget == 0 {
            break;
        }
    }
    compact_slots(l, e, &mut cur, &sig);
    let v = fails_same(l, e, &cur, &sig).unwrap_or_else(|| first.clone());
    (cur, v)
}

/// Fields referenced by the case (for the layout-reduction pass).
pub fn referenced_fields(case: &Case, v: &Violation) -> Vec<usize> {
    let mut fs: Vec<usize> = Vec::new();
    let mut visit = |op: &Op| match op {
        Op::Set { f, .. } | Op::With { f, .. } | Op::Read { f, .. } => fs.push(*f),
        _ => {}
    };
    for op in &case.ops {
        visit(op);
    }
    if let Some(s) = &case.sched {
        for p in &s.writers {
            for op in p {
                visit(op);
            }
        }
    }
    if let Some(f) = v.field {
        fs.push(f);
    }
    fs.sort();
    fs.dedup();
    fs
}

/// Drop every field that is not in `keep` and renumber field indices in the case. Returns None
/// when the case uses a builder (its argument list depends on all writable fields).
pub fn reduce_layout(l: &Layout, case: &Case, v: &Violation, keep: &[usize]) -> Option<(Layout, Case, String)> {
    let uses_build = case.ops.iter().any(|o| matches!(o, Op::Build { .. }));
    if uses_build || keep.len() == l.fields.len() || keep.is_empty() {
        return None;
    }
    let map = |f: usize| keep.iter().position(|&k| k == f);
    let mut nl = l.clone();
    nl.fields = keep.iter().map(|&k| l.fields[k].clone()).collect();
    let fix = |op: &Op| -> Option<Op> {
        Some(match op {
            Op::Set { slot, f, i, v } => Op::Set { slot: *slot, f: map(*f)?, i: *i, v: *v },
            Op::With { src, dst, f, i, v } => Op::With { src: *src, dst: *dst, f: map(*f)?, i: *i, v: *v },
            Op::Read { slot, f, i } => Op::Read { slot: *slot, f: map(*f)?, i: *i },
            o => o.clone(),
        })
    };
    let mut nc = case.clone();
    nc.ops = case.ops.iter().map(fix).collect::<Option<Vec<_>>>()?;
    if let Some(s) = nc.sched.as_mut() {
        for p in s.writers.iter_mut() {
            *p = p.iter().map(fix).collect::<Option<Vec<_>>>()?;
        }
    }
    let mut nv = v.clone();
    nv.field = match v.field {
        Some(f) => Some(map(f)?),
        None => None,
    };
    Some((nl, nc, nv.signature()))
}
