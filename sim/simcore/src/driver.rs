//! Entry point of every generated shard binary.
//!
//!   shard --prop C11|C12 --seed S --runs R --maxlen L --profile NAME --out result.json --replay-dir DIR
//!   shard --replay file.json            (execute the recorded operation list literally)
//!
//! Exit codes of the shard binary: 0 = ran to completion (violations, if any, are in the result
//! file), 1 = replay reproduced its violation, 2 = harness error.

use crate::layout::Layout;
use crate::ops::{gen_history, gen_sched, Case, Shape};
use crate::prng::{mix, Rng, TAG_RUN};
use crate::reg::Entry;
use crate::shrink::shrink;
use crate::sim::{install_panic_hook, run_case, Outcome, RunStats, Violation, N_PROBES, PROBE_NAMES};
use serde::{Deserialize, Serialize};
use std::collections::{BTreeMap, BTreeSet};
use std::time::Instant;

#[derive(Clone, Debug, Serialize, Deserialize)]
pub struct Replay {
    pub property: String,
    pub class: String,
    pub signature: String,
    pub seed: u64,
    pub layout_index: u32,
    pub run_index: u64,
    pub profile: String,
    pub minimised: bool,
    pub layout_reduced: bool,
    pub declaration: String,
    pub history_text: Vec<String>,
    pub layout: Layout,
    pub case: Case,
    pub violation: Violation,
}

#[derive(Clone, Debug, Default, Serialize, Deserialize)]
pub struct ViolationRecord {
    pub layout_index: u32,
    pub layout_class: String,
    pub run_index: u64,
    pub signature: String,
    pub detail: String,
    pub replay: String,
    pub ops_before_shrink: usize,
    pub ops_after_shrink: usize,
}

#[derive(Clone, Debug, Default, Serialize, Deserialize)]
pub struct ShardResult {
    pub property: String,
    pub profile: String,
    pub seed: u64,
    pub layouts_in_shard: u64,
    pub layouts_run: u64,
    pub layouts_by_base_width: BTreeMap<u32, u64>,
    pub layout_classes: BTreeMap<String, u64>,
    pub runs: u64,
    pub runs_free: u64,
    pub runs_sched: u64,
    pub runs_twin: u64,
    pub distinct_nontrivial: u64,
    pub distinct_digests: u64,
    pub digest_of_digests: String,
    pub steps: u64,
    pub getter_comparisons: u64,
    pub raw_comparisons: u64,
    pub state_changing_writes: u64,
    pub perturbations: BTreeMap<String, u64>,
    pub probes: BTreeMap<String, u64>,
    pub distinct_layout_states: u64,
    pub distinct_layout_states_cap: u64,
    pub distinct_schedules: u64,
    /// over layouts with a base of at most 10 bits: register states visited / states that exist
    pub small_base_states_visited: u64,
    pub small_base_states_possible: u64,
    pub setup_anomalies: u64,
    pub setup_anomaly_examples: Vec<String>,
    pub two_sided_panics: u64,
    pub builder_layouts: u64,
    pub violations: Vec<ViolationRecord>,
    pub samples: Vec<serde_json::Value>,
    pub harness_errors: Vec<String>,
    pub wall_s: f64,
}

fn arg(args: &[String], name: &str) -> Option<String> {
    args.iter().position(|a| a == name).and_then(|p| args.get(p + 1).cloned())
}

pub fn case_text(l: &Layout, c: &Case) -> Vec<String> {
    match c.shape {
        Shape::Sched => {
            let s = c.sched.as_ref().unwrap();
            let mut v = vec![format!("init: {}", s.init.text(l))];
            for (w, p) in s.writers.iter().enumerate() {
                let t: Vec<String> = p.iter().map(|o| o.text(l)).collect();
                v.push(format!("writer {w}: {}", t.join("; ")));
            }
            v.push(format!("schedule A: {:?}", s.a));
            v.push(format!("schedule B: {:?}", s.b));
            v.push(format!("writers pairwise disjoint: {}", s.disjoint));
            v
        }
        _ => c.ops.iter().map(|o| o.text(l)).collect(),
    }
}

fn nontrivial(prop: &str, st: &RunStats) -> bool {
    if prop == "C11" {
        st.restarts_after_change > 0
    } else {
        st.state_changing_writes > 0
    }
}

pub fn gen_case(prop: &str, rng: &mut Rng, l: &Layout, maxlen: usize, has_builder: bool) -> Case {
    if prop == "C11" {
        gen_history(rng, l, maxlen, true, has_builder)
    } else if rng.chance(30, 100) {
        match gen_sched(rng, l, maxlen) {
            Some(c) => c,
            None => gen_history(rng, l, maxlen, false, false),
        }
    } else {
        gen_history(rng, l, maxlen, false, false)
    }
}

fn replay_main(path: &str, layouts: &[Layout], entries: &[Entry]) -> i32 {
    let text = match std::fs::read_to_string(path) {
        Ok(t) => t,
        Err(e) => {
            eprintln!("HARNESS: cannot read {path}: {e}");
            return 2;
        }
    };
    let r: Replay = match serde_json::from_str(&text) {
        Ok(r) => r,
        Err(e) => {
            eprintln!("HARNESS: cannot parse {path}: {e}");
            return 2;
        }
    };
    let Some(pos) = layouts.iter().position(|l| *l == r.layout) else {
        eprintln!("HARNESS: this binary was not built for the layout in {path}");
        return 2;
    };
    let l = &layouts[pos];
    let Some(e) = entries.iter().find(|e| e.id == l.id) else {
        eprintln!("HARNESS: no entry for layout {}", l.id);
        return 2;
    };
    match run_case(l, e, &r.case) {
        Outcome::Violation(v, _) if v.signature() == r.signature => {
            println!("REPRODUCED signature={} step={} detail={}", v.signature(), v.step, v.detail);
            println!("VIOLATION property={} replay={}", r.property, path);
            1
        }
        Outcome::Violation(v, _) => {
            println!("DIFFERENT violation on replay: {} (recorded: {})", v.signature(), r.signature);
            println!("NOT-REPRODUCED");
            0
        }
        Outcome::Harness(m) => {
            eprintln!("HARNESS: {m}");
            2
        }
        Outcome::Invalid => {
            eprintln!("HARNESS: recorded case is not executable on this layout");
            2
        }
        _ => {
            println!("NOT-REPRODUCED");
            0
        }
    }
}

pub fn main(layouts_json: &str, entries: &[Entry]) -> i32 {
    install_panic_hook();
    let args: Vec<String> = std::env::args().collect();
    let layouts: Vec<Layout> = match serde_json::from_str(layouts_json) {
        Ok(l) => l,
        Err(e) => {
            eprintln!("HARNESS: embedded layouts.json does not parse: {e}");
            return 2;
        }
    };
    if let Some(path) = arg(&args, "--replay") {
        return replay_main(&path, &layouts, entries);
    }
    let prop = arg(&args, "--prop").unwrap_or_else(|| "C12".into());
    let seed: u64 = arg(&args, "--seed").and_then(|s| s.parse().ok()).unwrap_or(1);
    let runs: u64 = arg(&args, "--runs").and_then(|s| s.parse().ok()).unwrap_or(100);
    let maxlen: usize = arg(&args, "--maxlen").and_then(|s| s.parse().ok()).unwrap_or(64);
    let profile = arg(&args, "--profile").unwrap_or_else(|| "checked".into());
    let out = arg(&args, "--out").unwrap_or_else(|| "result.json".into());
    let replay_dir = arg(&args, "--replay-dir").unwrap_or_else(|| ".".into());
    let wall_cap: f64 = arg(&args, "--wall-cap").and_then(|s| s.parse().ok()).unwrap_or(1e9);
    let max_violations: usize = arg(&args, "--max-violations").and_then(|s| s.parse().ok()).unwrap_or(4);
    let digests_out = arg(&args, "--digests-out");

    let t0 = Instant::now();
    let mut res = ShardResult { property: prop.clone(), profile: profile.clone(), seed, ..Default::default() };
    res.layouts_in_shard = entries.len() as u64;
    let mut nontrivial_digests: BTreeSet<u64> = BTreeSet::new();
    let mut all_digests: BTreeSet<u64> = BTreeSet::new();
    let mut dod: u64 = 0xcbf2_9ce4_8422_2325;
    let mut digest_log: Vec<u64> = Vec::new();
    const STATE_CAP: usize = 2_000_000;
    let mut states: BTreeSet<u64> = BTreeSet::new();
    let mut schedules: BTreeSet<u64> = BTreeSet::new();
    let mut probes = [0u64; N_PROBES];
    let mut pert: BTreeMap<String, u64> = BTreeMap::new();
    let mut capped = false;

    'layouts: for e in entries {
        let Some(l) = layouts.iter().find(|l| l.id == e.id) else {
            res.harness_errors.push(format!("entry {} has no layout description", e.id));
            continue;
        };
        if prop == "C11" && !l.is_arb_base() {
            continue;
        }
        res.layouts_run += 1;
        *res.layouts_by_base_width.entry(l.bits).or_insert(0) += 1;
        *res.layout_classes.entry(l.class.split(':').next().unwrap_or("?").to_string()).or_insert(0) += 1;
        if e.build.is_some() {
            res.builder_layouts += 1;
        }
        let mut small_states: BTreeSet<u16> = BTreeSet::new();
        // narrow bases have a state space small enough to be covered densely: give them more runs
        let runs_l = if l.bits <= 8 { runs * 6 } else if l.bits <= 16 { runs * 2 } else { runs };
        for j in 0..runs_l {
            if t0.elapsed().as_secs_f64() > wall_cap {
                capped = true;
                break 'layouts;
            }
            let mut rng = Rng::new(mix(&[seed, TAG_RUN, l.id as u64, j]));
            let case = gen_case(&prop, &mut rng, l, maxlen, e.build.is_some());
            match case.shape {
                Shape::Free => res.runs_free += 1,
                Shape::Sched => res.runs_sched += 1,
                Shape::Twin => res.runs_twin += 1,
            }
            res.runs += 1;
            if res.samples.len() < 3 && j == 1 {
                res.samples.push(serde_json::json!({
                    "layout": l.summary(),
                    "layout_index": l.id,
                    "run_index": j,
                    "shape": format!("{:?}", case.shape),
                    "history": case_text(l, &case),
                }));
            }
            match run_case(l, e, &case) {
                Outcome::Pass(st) => {
                    res.setup_anomalies += st.setup_anomalies;
                    if let Some(m) = &st.setup_anomaly_example {
                        if res.setup_anomaly_examples.len() < 5 {
                            res.setup_anomaly_examples.push(format!("layout {} run {}: {}", l.id, j, m));
                        }
                    }
                    res.steps += st.steps;
                    res.getter_comparisons += st.getter_comparisons;
                    res.raw_comparisons += st.raw_comparisons;
                    res.state_changing_writes += st.state_changing_writes;
                    res.two_sided_panics += st.two_sided_panics;
                    *pert.entry("restart".into()).or_insert(0) += st.restarts;
                    *pert.entry("restart_after_state_change".into()).or_insert(0) += st.restarts_after_change;
                    *pert.entry("fork_by_with".into()).or_insert(0) += st.forks_by_with;
                    *pert.entry("copy".into()).or_insert(0) += st.copies;
                    *pert.entry("set_".into()).or_insert(0) += st.sets;
                    *pert.entry("with_".into()).or_insert(0) += st.withs;
                    *pert.entry("builder_construction".into()).or_insert(0) += st.builds;
                    if prop == "C11" {
                        *pert.entry("out_of_range_index_write".into()).or_insert(0) += st.oob_index_writes;
                        *pert.entry("out_of_range_index_write_returned_normally".into()).or_insert(0) += st.oob_writes_returned_normally;
                        *pert.entry("operator_trait_op_attempted".into()).or_insert(0) += st.operator_ops_attempted;
                        *pert.entry("operator_trait_op_supported_by_tree".into()).or_insert(0) += st.operator_ops_supported;
                    }
                    for i in 0..N_PROBES {
                        probes[i] += st.probes[i];
                    }
                    all_digests.insert(st.digest);
                    if nontrivial(&prop, &st) {
                        nontrivial_digests.insert(st.digest);
                    }
                    for b in st.digest.to_le_bytes() {
                        dod ^= b as u64;
                        dod = dod.wrapping_mul(0x0000_0100_0000_01B3);
                    }
                    if digests_out.is_some() {
                        digest_log.push(st.digest);
                    }
                    if l.bits <= 10 {
                        for s in &st.states {
                            small_states.insert(*s as u16);
                        }
                    }
                    if states.len() < STATE_CAP {
                        for s in &st.states {
                            states.insert(mix(&[l.id as u64, *s as u64, (*s >> 64) as u64]));
                        }
                    }
                    if let Some(s) = &case.sched {
                        for order in [&s.a, &s.b] {
                            let mut h = vec![l.id as u64, j];
                            h.extend(order.iter().map(|&x| x as u64));
                            schedules.insert(mix(&h));
                        }
                    }
                }
                Outcome::SetupAnomaly(m) => {
                    res.setup_anomalies += 1;
                    if res.setup_anomaly_examples.len() < 5 {
                        res.setup_anomaly_examples.push(format!("layout {} run {}: {}", l.id, j, m));
                    }
                }
                Outcome::Invalid => {
                    res.harness_errors.push(format!("layout {} run {}: generated case is not executable", l.id, j));
                }
                Outcome::Harness(m) => {
                    res.harness_errors.push(format!("layout {} run {}: {}", l.id, j, m));
                }
                Outcome::Violation(v, _) => {
                    let before = match case.shape {
                        Shape::Sched => case.sched.as_ref().unwrap().writers.iter().map(|p| p.len()).sum::<usize>() + 1,
                        _ => case.ops.len(),
                    };
                    let (small, sv) = shrink(l, e, &case, &v);
                    let after = match small.shape {
                        Shape::Sched => small.sched.as_ref().unwrap().writers.iter().map(|p| p.len()).sum::<usize>() + 1,
                        _ => small.ops.len(),
                    };
                    let file = format!("{}/{}-s{}-l{}-r{}-{}.json", replay_dir, prop, seed, l.id, j, profile);
                    let rp = Replay {
                        property: prop.clone(),
                        class: sv.class.clone(),
                        signature: sv.signature(),
                        seed,
                        layout_index: l.id,
                        run_index: j,
                        profile: profile.clone(),
                        minimised: true,
                        layout_reduced: false,
                        declaration: l.summary(),
                        history_text: case_text(l, &small),
                        layout: l.clone(),
                        case: small,
                        violation: sv.clone(),
                    };
                    if let Err(e) = std::fs::write(&file, serde_json::to_string_pretty(&rp).unwrap()) {
                        res.harness_errors.push(format!("cannot write {file}: {e}"));
                    }
                    res.violations.push(ViolationRecord {
                        layout_index: l.id,
                        layout_class: l.class.clone(),
                        run_index: j,
                        signature: sv.signature(),
                        detail: sv.detail.clone(),
                        replay: file,
                        ops_before_shrink: before,
                        ops_after_shrink: after,
                    });
                    if res.violations.len() >= max_violations {
                        break 'layouts;
                    }
                    // one violation per layout is enough
                    continue 'layouts;
                }
            }
        }
        if l.bits <= 10 {
            res.small_base_states_visited += small_states.len() as u64;
            res.small_base_states_possible += 1u64 << l.bits;
        }
    }
    res.distinct_nontrivial = nontrivial_digests.len() as u64;
    res.distinct_digests = all_digests.len() as u64;
    res.digest_of_digests = format!("{dod:#018x}");
    res.distinct_layout_states = states.len() as u64;
    res.distinct_layout_states_cap = STATE_CAP as u64;
    res.distinct_schedules = schedules.len() as u64;
    for i in 0..N_PROBES {
        res.probes.insert(PROBE_NAMES[i].to_string(), probes[i]);
    }
    res.perturbations = pert;
    if capped {
        res.perturbations.insert("wall_cap_hit".into(), 1);
    }
    res.wall_s = t0.elapsed().as_secs_f64();
    if let Some(p) = digests_out {
        let text: Vec<String> = digest_log.iter().map(|d| format!("{d:016x}")).collect();
        let _ = std::fs::write(p, text.join("\n"));
    }
    match std::fs::write(&out, serde_json::to_string_pretty(&res).unwrap()) {
        Ok(()) => {}
        Err(e) => {
            eprintln!("HARNESS: cannot write {out}: {e}");
            return 2;
        }
    }
    if !res.harness_errors.is_empty() {
        for h in &res.harness_errors {
            eprintln!("HARNESS: {h}");
        }
        return 2;
    }
    0
}
