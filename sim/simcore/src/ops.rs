//! Operations, cases (histories) and their seeded generators.

use crate::emit::builder_args;
use crate::layout::{Hex, Layout};
use crate::prng::{biased_bits, mask, Rng};
use crate::reg::*;
use serde::{Deserialize, Serialize};

#[derive(Clone, Debug, PartialEq, Eq, Serialize, Deserialize)]
pub enum Op {
    /// slot := T::new_with_raw_value(raw)
    Init { slot: usize, raw: Hex },
    /// slot := ZERO / DEFAULT / Default::default() / new()
    InitSpecial { slot: usize, which: u8 },
    /// slot.set_f(i, v)
    Set { slot: usize, f: usize, i: u32, v: Hex },
    /// dst := src.with_f(i, v)   (dst may equal src)
    With { src: usize, dst: usize, f: usize, i: u32, v: Hex },
    /// dst := src  (Copy)
    Copy { src: usize, dst: usize },
    /// slot.f(i)
    Read { slot: usize, f: usize, i: u32 },
    /// slot.raw_value()
    Raw { slot: usize },
    /// the injected fault (C11 only): the replica of `slot` is replaced by
    /// new_with_raw_value(raw_value()) of itself, or of the primary when `from_primary`
    Restart { slot: usize, from_primary: bool },
    /// dst := T::builder().with_..(..)...build()   (C11 only)
    Build { dst: usize, args: Vec<Hex> },
    /// dst := !a / a & b / a | b / a ^ b, if the generated type implements the operator at all
    /// (C11 only; a no-op on a tree that does not)
    Operator { dst: usize, a: usize, b: usize, op: u8 },
}

impl Op {
    pub fn is_write(&self) -> bool {
        matches!(self, Op::Set { .. } | Op::With { .. })
    }
    pub fn text(&self, l: &Layout) -> String {
        let fname = |f: usize| l.fields.get(f).map(|x| x.name.clone()).unwrap_or_else(|| format!("?{f}"));
        let idx = |f: usize, i: u32| if l.fields.get(f).map_or(false, |x| x.array.is_some()) { format!("{i}, ") } else { String::new() };
        let idx_only = |f: usize, i: u32| if l.fields.get(f).map_or(false, |x| x.array.is_some()) { format!("{i}") } else { String::new() };
        match self {
            Op::Init { slot, raw } => format!("s{slot} = T::new_with_raw_value({:#x})", raw.0),
            Op::InitSpecial { slot, which } => format!(
                "s{slot} = {}",
                match *which {
                    SPECIAL_ZERO => "T::ZERO",
                    SPECIAL_DEFAULT_CONST => "T::DEFAULT",
                    SPECIAL_DEFAULT_TRAIT => "T::default()",
                    _ => "T::new()",
                }
            ),
            Op::Set { slot, f, i, v } => format!("s{slot}.set_{}({}{:#x})", fname(*f).trim_start_matches("r#"), idx(*f, *i), v.0),
            Op::With { src, dst, f, i, v } => format!("s{dst} = s{src}.with_{}({}{:#x})", fname(*f).trim_start_matches("r#"), idx(*f, *i), v.0),
            Op::Copy { src, dst } => format!("s{dst} = s{src}"),
            Op::Read { slot, f, i } => format!("s{slot}.{}({})", fname(*f), idx_only(*f, *i)),
            Op::Raw { slot } => format!("s{slot}.raw_value()"),
            Op::Restart { slot, from_primary } => {
                if *from_primary {
                    format!("RESTART replica s{slot} := T::new_with_raw_value(primary s{slot}.raw_value())")
                } else {
                    format!("RESTART replica s{slot} := T::new_with_raw_value(replica s{slot}.raw_value())")
                }
            }
            Op::Build { dst, args } => {
                let a: Vec<String> = args.iter().map(|h| format!("{:#x}", h.0)).collect();
                format!("s{dst} = T::builder()..({})..build()", a.join(", "))
            }
            Op::Operator { dst, a, b, op } => match *op {
                OP_NOT => format!("s{dst} = !s{a}"),
                OP_AND => format!("s{dst} = s{a} & s{b}"),
                OP_OR => format!("s{dst} = s{a} | s{b}"),
                _ => format!("s{dst} = s{a} ^ s{b}"),
            },
        }
    }
}

#[derive(Clone, Copy, Debug, PartialEq, Eq, Serialize, Deserialize)]
pub enum Shape {
    /// C12: free history refined against the reference register
    Free,
    /// C11: primary/replica twin run with restarts
    Twin,
    /// C12: fixed writer programs executed under two seeded interleavings
    Sched,
}

#[derive(Clone, Debug, PartialEq, Eq, Serialize, Deserialize)]
pub struct Sched {
    pub init: Op,
    /// one program per logical writer; only Set / With(src=dst=0) on slot 0
    pub writers: Vec<Vec<Op>>,
    /// two interleavings: sequences of writer ids; each preserves every writer's program order
    pub a: Vec<u8>,
    pub b: Vec<u8>,
    /// writers' bit sets are pairwise disjoint, so the final state must not depend on the schedule
    pub disjoint: bool,
}

impl Sched {
    pub fn linearise(&self, order: &[u8]) -> Option<Vec<Op>> {
        let mut pc = vec![0usize; self.writers.len()];
        let mut out = vec![self.init.clone()];
        for &w in order {
            let w = w as usize;
            let p = self.writers.get(w)?;
            let op = p.get(pc[w])?;
            out.push(op.clone());
            pc[w] += 1;
        }
        for (w, p) in self.writers.iter().enumerate() {
            if pc[w] != p.len() {
                return None;
            }
        }
        Some(out)
    }
}

#[derive(Clone, Debug, PartialEq, Eq, Serialize, Deserialize)]
pub struct Case {
    pub shape: Shape,
    pub nslots: usize,
    pub ops: Vec<Op>,
    pub sched: Option<Sched>,
}

// ------------------------------------------------------------------------------------------------

struct Cells {
    /// writable fields
    w: Vec<usize>,
    /// readable fields
    r: Vec<usize>,
}

fn cells(l: &Layout) -> Cells {
    let mut c = Cells { w: vec![], r: vec![] };
    for (j, f) in l.fields.iter().enumerate() {
        if f.access.writable() {
            c.w.push(j);
        }
        if f.access.readable() {
            c.r.push(j);
        }
    }
    c
}

fn gen_index(rng: &mut Rng, count: u32) -> u32 {
    if count <= 1 {
        return 0;
    }
    match rng.below(5) {
        0 => 0,
        1 => count - 1,
        2 => count / 2,
        _ => rng.below(count as u64) as u32,
    }
}

pub fn gen_value(rng: &mut Rng, l: &Layout, f: usize) -> u128 {
    let fd = &l.fields[f];
    match fd.legal_values() {
        Some(vs) => *rng.pick(&vs),
        None => biased_bits(rng, fd.value_width()),
    }
}

fn gen_init(rng: &mut Rng, l: &Layout, slot: usize) -> Op {
    // class-D probes are about the default value: start from it most of the time
    let p_special = if l.class.starts_with("D:") { 70 } else { 15 };
    if rng.chance(p_special, 100) {
        let which = if l.default.is_some() { rng.below(4) as u8 } else { SPECIAL_ZERO };
        Op::InitSpecial { slot, which }
    } else {
        Op::Init { slot, raw: Hex(biased_bits(rng, l.bits)) }
    }
}

fn gen_len(rng: &mut Rng, maxlen: usize) -> usize {
    if maxlen <= 8 || rng.chance(75, 100) {
        rng.range(1, 8.min(maxlen) as u64) as usize
    } else {
        rng.range(9, maxlen as u64) as usize
    }
}

/// the writable field whose top bit is highest (where in-flight hidden state would be)
fn top_writable(l: &Layout, c: &Cells) -> Option<usize> {
    c.w.iter().copied().max_by_key(|&j| l.fields[j].top_bit())
}

/// C12 free history / C11 twin history. `twin` adds Restart and Build operations.
pub fn gen_history(rng: &mut Rng, l: &Layout, maxlen: usize, twin: bool, has_builder: bool) -> Case {
    let c = cells(l);
    let nslots = 1 + rng.weighted(&[46, 28, 17, 5, 4]);
    let mut ops: Vec<Op> = (0..nslots).map(|s| gen_init(rng, l, s)).collect();
    let len = gen_len(rng, maxlen);
    let top = top_writable(l, &c);
    let bargs = builder_args(l);
    let mut last_write: Option<(usize, u32)> = None;
    // last value this history wrote to a cell, for "same value again" / "one bit changed" writes
    let mut last_value: std::collections::BTreeMap<(usize, u32), u128> = std::collections::BTreeMap::new();
    let mut n = 0;
    while n < len {
        n += 1;
        // weights: Set, With(same slot), With(fork), Copy, Read, Raw, Restart, Build, Operator
        let mut wts = if twin { [26u64, 20, 8, 4, 5, 3, 22, 12, 5] } else { [34, 26, 10, 5, 15, 10, 0, 0, 0] };
        if c.w.is_empty() {
            wts[0] = 0;
            wts[1] = 0;
            wts[2] = 0;
        }
        if c.r.is_empty() {
            wts[4] = 0;
        }
        if nslots < 2 {
            wts[2] = 0;
            wts[3] = 0;
        }
        if !has_builder {
            wts[7] = 0;
        }
        let k = rng.weighted(&wts);
        match k {
            0 | 1 | 2 => {
                let (f, i) = match (last_write, rng.chance(15, 100), top, twin && rng.chance(35, 100)) {
                    (Some(fi), true, _, _) => fi, // same cell rewritten immediately
                    (_, _, Some(t), true) => (t, l.fields[t].count() - 1), // the highest-placed element
                    _ => {
                        let f = *rng.pick(&c.w);
                        (f, gen_index(rng, l.fields[f].count()))
                    }
                };
                let mut v = Hex(gen_value(rng, l, f));
                if let (Some(&prev), None) = (last_value.get(&(f, i)), l.fields[f].legal_values()) {
                    match rng.below(100) {
                        // the value that is (probably) already there
                        0..=6 => v = Hex(prev),
                        // exactly one bit different from it
                        7..=11 => v = Hex(prev ^ (1u128 << rng.below(l.fields[f].value_width() as u64))),
                        // +1 / -1 (carries and borrows across the whole field)
                        12..=14 => v = Hex(prev.wrapping_add(1) & mask(l.fields[f].value_width())),
                        15..=16 => v = Hex(prev.wrapping_sub(1) & mask(l.fields[f].value_width())),
                        _ => {}
                    }
                }
                last_value.insert((f, i), v.0);
                let slot = rng.usize_below(nslots);
                // C11 only: now and then address an element at or just beyond `count` (must
                // panic; if it returns normally it is an operation like any other)
                let i = if twin && l.fields[f].array.is_some() && rng.chance(5, 100) {
                    l.fields[f].count() + rng.below(4) as u32
                } else {
                    i
                };
                let op = match k {
                    0 => Op::Set { slot, f, i, v },
                    1 => Op::With { src: slot, dst: slot, f, i, v },
                    _ => {
                        let mut dst = rng.usize_below(nslots);
                        if dst == slot {
                            dst = (slot + 1) % nslots;
                        }
                        Op::With { src: slot, dst, f, i, v }
                    }
                };
                ops.push(op);
                last_write = Some((f, i));
                // fault placement bias: restart right after a write to the highest-placed element
                if twin && Some(f) == top && rng.chance(50, 100) {
                    let slot = match ops.last().unwrap() {
                        Op::With { dst, .. } => *dst,
                        Op::Set { slot, .. } => *slot,
                        _ => unreachable!(),
                    };
                    ops.push(Op::Restart { slot, from_primary: rng.chance(30, 100) });
                    n += 1;
                }
            }
            3 => {
                let src = rng.usize_below(nslots);
                let mut dst = rng.usize_below(nslots);
                if dst == src {
                    dst = (src + 1) % nslots;
                }
                ops.push(Op::Copy { src, dst });
            }
            4 => {
                let f = *rng.pick(&c.r);
                ops.push(Op::Read { slot: rng.usize_below(nslots), f, i: gen_index(rng, l.fields[f].count()) });
            }
            5 => ops.push(Op::Raw { slot: rng.usize_below(nslots) }),
            6 => ops.push(Op::Restart { slot: rng.usize_below(nslots), from_primary: rng.chance(30, 100) }),
            8 => {
                let a = rng.usize_below(nslots);
                ops.push(Op::Operator { dst: rng.usize_below(nslots), a, b: rng.usize_below(nslots), op: rng.below(4) as u8 });
            }
            _ => {
                let args: Vec<Hex> = bargs.iter().map(|&(f, _)| Hex(gen_value(rng, l, f))).collect();
                ops.push(Op::Build { dst: rng.usize_below(nslots), args });
            }
        }
    }
    Case { shape: if twin { Shape::Twin } else { Shape::Free }, nslots, ops, sched: None }
}

/// C12 interleaved writers: 2..=4 logical writers with fixed programs, two interleavings.
/// Returns None when the layout has fewer than two writable cells.
pub fn gen_sched(rng: &mut Rng, l: &Layout, maxlen: usize) -> Option<Case> {
    let c = cells(l);
    let mut all: Vec<(usize, u32)> = Vec::new();
    for &f in &c.w {
        let cnt = l.fields[f].count();
        // cap the number of cells taken from one big array so that other fields get a share
        if cnt > 8 {
            let mut picks: Vec<u32> = vec![0, cnt - 1, cnt / 2];
            for _ in 0..5 {
                picks.push(rng.below(cnt as u64) as u32);
            }
            picks.sort();
            picks.dedup();
            for i in picks {
                all.push((f, i));
            }
        } else {
            for i in 0..cnt {
                all.push((f, i));
            }
        }
    }
    if all.len() < 2 {
        return None;
    }
    rng.shuffle(&mut all);
    let nw = rng.range(2, 4.min(all.len()) as u64) as usize;
    let disjoint = !rng.chance(20, 100);
    let mut owned: Vec<Vec<(usize, u32)>> = vec![Vec::new(); nw];
    let mut masks = vec![0u128; nw];
    for &(f, i) in &all {
        let m = l.fields[f].bitmask(i);
        let w = rng.usize_below(nw);
        if disjoint {
            // may join writer w only if it does not touch any other writer's bits
            let clash: Vec<usize> = (0..nw).filter(|&o| masks[o] & m != 0).collect();
            let target = match clash.len() {
                0 => w,
                1 => clash[0],
                _ => continue,
            };
            owned[target].push((f, i));
            masks[target] |= m;
        } else {
            owned[w].push((f, i));
            masks[w] |= m;
        }
    }
    let owned: Vec<Vec<(usize, u32)>> = owned.into_iter().filter(|v| !v.is_empty()).collect();
    if owned.len() < 2 {
        return None;
    }
    let per = (maxlen / owned.len()).clamp(1, 6);
    let mut writers: Vec<Vec<Op>> = Vec::new();
    for cellset in &owned {
        let n = rng.range(1, per as u64) as usize;
        let mut p = Vec::new();
        for _ in 0..n {
            let &(f, i) = rng.pick(cellset);
            let v = Hex(gen_value(rng, l, f));
            p.push(if rng.chance(1, 2) { Op::Set { slot: 0, f, i, v } } else { Op::With { src: 0, dst: 0, f, i, v } });
        }
        writers.push(p);
    }
    let draw = |rng: &mut Rng| -> Vec<u8> {
        let mut left: Vec<usize> = writers.iter().map(|p| p.len()).collect();
        let mut order = Vec::new();
        loop {
            let alive: Vec<usize> = (0..left.len()).filter(|&w| left[w] > 0).collect();
            if alive.is_empty() {
                break;
            }
            let w = *rng.pick(&alive);
            left[w] -= 1;
            order.push(w as u8);
        }
        order
    };
    let a = draw(rng);
    let mut b = draw(rng);
    // make the two schedules differ whenever that is possible
    for _ in 0..8 {
        if b != a {
            break;
        }
        b = draw(rng);
    }
    if b == a {
        // deterministic alternative: all of the last writer first
        let mut alt: Vec<u8> = Vec::new();
        for (w, p) in writers.iter().enumerate().rev() {
            for _ in 0..p.len() {
                alt.push(w as u8);
            }
        }
        b = alt;
    }
    let init = Op::Init { slot: 0, raw: Hex(biased_bits(rng, l.bits)) };
    Some(Case { shape: Shape::Sched, nslots: 1, ops: vec![], sched: Some(Sched { init, writers, a, b, disjoint }) })
}
