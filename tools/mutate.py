#!/usr/bin/env python3
"""Mechanical mutation campaign against the checks (development tool, not a registered check).

For every small syntactic mutant of the macro sources (operator swaps, off-by-one constants,
dropped negations) that still compiles AND keeps the 128 existing tests green, run the registered
quick checks against it (scratch worktree, scratch evidence) and record which check reports it.
Survivors are listed for manual inspection: they are either equivalent mutants or misses.

  tools/mutate.py --out /tmp/mutation --files codegen.rs,parsing.rs,mod.rs [--limit N] [--layouts-c12 N] [--layouts-c11 N]
"""
import argparse, json, os, re, subprocess, sys, time, hashlib

VERIF = os.path.dirname(os.path.dirname(os.path.abspath(__file__)))
SRC = {
    "codegen.rs": "bitbybit/src/bitfield/codegen.rs",
    "parsing.rs": "bitbybit/src/bitfield/parsing.rs",
    "mod.rs": "bitbybit/src/bitfield/mod.rs",
    "bitenum.rs": "bitbybit/src/bitenum.rs",
    "bit_size.rs": "bitbybit/src/bit_size.rs",
}

# (regex, replacement, label); applied to one occurrence at a time
RULES = [
    (r"<<", ">>", "shl->shr"), (r">>", "<<", "shr->shl"),
    (r"(?<![|&])\|(?![|=])", "&", "or->and"), (r"(?<![&|])&(?![&=a-zA-Z_\[#'(m])", "|", "and->or"),
    (r" \+ ", " - ", "add->sub"), (r" - ", " + ", "sub->add"),
    (r" \* ", " + ", "mul->add"),
    (r"<=", "<", "le->lt"), (r">=", ">", "ge->gt"), (r"(?<![<=>-])<(?![<=])", "<=", "lt->le"), (r"(?<![<=>-])>(?![>=])", ">=", "gt->ge"),
    (r"==", "!=", "eq->ne"), (r"!=", "==", "ne->eq"),
    (r"!\(", "(", "drop-not"), (r"& !", "& ", "drop-not2"),
    (r"\b0\b", "1", "0->1"), (r"\b1\b", "0", "1->0"), (r"\b1\b", "2", "1->2"), (r"\b8\b", "7", "8->7"), (r"\b128\b", "127", "128->127"),
    (r"\.start\b", ".end", "start->end"), (r"\.end\b", ".start", "end->start"),
    (r"\.len\(\)", ".len() + 1", "len+1"), (r"\.len\(\)", ".len() - 1", "len-1"),
    (r"#lowest_bit", "0", "lowest_bit->0"), (r"#number_of_bits", "(#number_of_bits - 1)", "nbits-1"),
    (r"#shift_left", "0", "shift_left->0"), (r"#shift_right", "0", "shift_right->0"),
    (r"\.internal\b", ".exposed", "internal->exposed"), (r"\.exposed\b", ".internal", "exposed->internal"),
    (r"\.max\(\)", ".min()", "max->min"),
    (r"index \* #indexed_stride", "index", "drop-stride"), (r"\+ index \* #indexed_stride", "", "drop-array-shift"),
    (r"effective_index", "index", "effective_index->index"),
    (r"&&", "||", "and->or(bool)"), (r"\|\|", "&&", "or->and(bool)"),
    (r"\btrue\b", "false", "true->false"), (r"\bfalse\b", "true", "false->true"),
]

# second campaign: operators the first one did not have (forced conditions, deleted statements,
# threshold constants, narrowed integer types, dropped casts and masks)
RULES2 = [
    (r"\bif (?!let\b)[^{]+ \{", "if true {", "cond->true"), (r"\bif (?!let\b)[^{]+ \{", "if false {", "cond->false"),
    (r"\b16\b", "15", "16->15"), (r"\b16\b", "17", "16->17"), (r"\b32\b", "31", "32->31"), (r"\b32\b", "33", "32->33"),
    (r"\b64\b", "63", "64->63"), (r"\b64\b", "65", "64->65"), (r"\b8\b", "9", "8->9"), (r"\b128\b", "129", "128->129"),
    (r"\bu128\b", "u64", "u128->u64"), (r"\bu64\b", "u32", "u64->u32"), (r"\bu64\b", "u128", "u64->u128"),
    (r"\bu32\b", "u16", "u32->u16"), (r"\bu16\b", "u8", "u16->u8"), (r"\bu8\b", "u16", "u8->u16"),
    (r" as #[a-z_]+", "", "drop-cast"), (r" & #[a-z_]+", "", "drop-mask"), (r" \| #[a-z_]+", "", "drop-or"),
    (r"\.rev\(\)", "", "drop-rev"), (r"\.iter\(\)\.skip\(1\)", ".iter()", "drop-skip"),
    (r"\bmin\(", "max(", "min->max"), (r"\bmax\(", "min(", "max->min(fn)"),
    (r"wrapping_sub", "wrapping_add", "wsub->wadd"), (r"\.unwrap_or\(([^)]*)\)", ".unwrap()", "unwrap_or->unwrap"),
    (r"Some\(([a-z_]+)\)", "None", "some->none"),
    (r"^(\s+)(?!let |use |return|pub |fn |//|\}|#)([^;{}]+;)\s*$", r"\1", "delete-statement"),
    (r"\+ 1\b", "", "drop+1"), (r"- 1\b", "", "drop-1"),
    (r"\bfirst\(\)", "last()", "first->last"), (r"\blast\(\)", "first()", "last->first"),
]

ACTIVE_RULES = RULES
SKIP_LINE = re.compile(r"^\s*(//|///|use |#\[|\*)|format!\(|Error::new|panic!\(|expect\(|\"bitfield!")


def sh(cmd, cwd=None, env=None, timeout=3600):
    return subprocess.run(cmd, shell=True, cwd=cwd, env=env, stdout=subprocess.PIPE, stderr=subprocess.STDOUT, text=True, timeout=timeout)


def mutants_of(path, text):
    lines = text.split("\n")
    for ln, line in enumerate(lines):
        if SKIP_LINE.search(line):
            continue
        for rx, rep, label in ACTIVE_RULES:
            for m in re.finditer(rx, line):
                new = line[:m.start()] + m.expand(rep) + line[m.end():]
                if new == line:
                    continue
                yield ln + 1, label, m.start(), "\n".join(lines[:ln] + [new] + lines[ln + 1:]), line.strip(), new.strip()


def main():
    ap = argparse.ArgumentParser()
    ap.add_argument("--out", required=True)
    ap.add_argument("--files", default="codegen.rs,parsing.rs,mod.rs")
    ap.add_argument("--limit", type=int, default=0)
    ap.add_argument("--stride", type=int, default=1, help="take every k-th candidate")
    ap.add_argument("--layouts-c12", type=int, default=1600)
    ap.add_argument("--layouts-c11", type=int, default=800)
    ap.add_argument("--runs", type=int, default=600)
    ap.add_argument("--ruleset", type=int, default=1, help="1 = first campaign's operators, 2 = second campaign's")
    ap.add_argument("--count-only", action="store_true")
    a = ap.parse_args()
    global ACTIVE_RULES
    ACTIVE_RULES = RULES if a.ruleset == 1 else RULES2
    os.makedirs(a.out, exist_ok=True)
    wt = os.path.join(a.out, "wt")
    sh(f"git -C /repo worktree remove --force {wt}")
    r = sh(f"git -C /repo worktree add {wt} HEAD")
    if r.returncode != 0:
        print(r.stdout)
        sys.exit(2)
    env = dict(os.environ, CARGO_TARGET_DIR=os.path.join(a.out, "target"), CARGO_NET_OFFLINE="true")
    results_path = os.path.join(a.out, "results.jsonl")
    done = set()
    if os.path.exists(results_path):
        for line in open(results_path):
            done.add(json.loads(line)["key"])
    # warm build
    sh("cargo test --workspace --offline --no-run", cwd=wt, env=env)
    cands = []
    for f in a.files.split(","):
        rel = SRC[f]
        text = open(os.path.join(wt, rel)).read()
        for ln, label, col, mutated, before, after in mutants_of(rel, text):
            cands.append((rel, ln, label, col, mutated, before, after))
    cands = cands[:: a.stride]
    if a.limit:
        cands = cands[: a.limit]
    print(f"{len(cands)} candidate mutants", flush=True)
    if a.count_only:
        from collections import Counter
        print(Counter(c[2] for c in cands))
        sh(f"git -C /repo worktree remove --force {wt}")
        return
    out = open(results_path, "a")
    for k, (rel, ln, label, col, mutated, before, after) in enumerate(cands):
        key = f"{rel}:{ln}:{col}:{label}"
        if key in done:
            continue
        orig = open(os.path.join(wt, rel)).read()
        open(os.path.join(wt, rel), "w").write(mutated)
        rec = dict(key=key, file=rel, line=ln, label=label, before=before, after=after)
        t0 = time.time()
        r = sh("cargo test --workspace --offline 2>&1 | tail -40", cwd=wt, env=env)
        passed = re.search(r"test result: ok\. 128 passed", r.stdout) is not None
        if not passed:
            rec["status"] = "killed-by-suite-or-compile"
        else:
            verdicts = {}
            for prop, layouts in (("C12", a.layouts_c12), ("C11", a.layouts_c11)):
                e2 = dict(os.environ, VERIF_REPO_DIR=wt, VERIF_WORK_DIR=os.path.join(a.out, "work"), VERIF_EVIDENCE_DIR=os.path.join(a.out, "ev"),
                          VERIF_REPLAY_DIR=os.path.join(a.out, "rp"), VERIF_LAYOUTS=str(layouts), VERIF_RUNS=str(a.runs))
                c = sh(f"./check {prop} --tier quick", cwd=VERIF, env=e2)
                first = ""
                for line in c.stdout.splitlines():
                    if line.startswith("  layout "):
                        first = line.strip()[:200]
                        break
                notes = sum(1 for line in c.stdout.splitlines() if line.startswith("NOTE:"))
                verdicts[prop] = dict(exit=c.returncode, first=first, rejected_rule_valid_notes=notes,
                                      harness=(c.stdout[-400:] if c.returncode == 2 else ""))
            rec["checks"] = verdicts
            if any(v["exit"] == 1 for v in verdicts.values()):
                rec["status"] = "caught"
            elif any(v["exit"] == 2 for v in verdicts.values()):
                rec["status"] = "harness-error"
            elif any(v["rejected_rule_valid_notes"] for v in verdicts.values()):
                rec["status"] = "survived-but-rejects-rule-valid-layouts"
            else:
                rec["status"] = "survived"
        rec["wall_s"] = round(time.time() - t0, 1)
        open(os.path.join(wt, rel), "w").write(orig)
        out.write(json.dumps(rec) + "\n")
        out.flush()
        print(f"[{k + 1}/{len(cands)}] {key} {rec['status']} ({rec['wall_s']}s)  {before[:70]}  =>  {after[:70]}", flush=True)
    sh(f"git -C /repo worktree remove --force {wt}")


if __name__ == "__main__":
    main()
